#!/bin/bash
# MANIFEST.setup_cmd: build the framework offline from files on disk only.
set -eu
cd /verif/mc
export CARGO_NET_OFFLINE=true RUST_BACKTRACE=0
mkdir -p /verif/work /verif/evidence /verif/replays
cargo build --release --offline
echo "setup ok"
