#!/bin/bash
# MANIFEST.setup_cmd: build the framework offline from files on disk only.
set -eu
cd /verif/mc
export CARGO_NET_OFFLINE=true RUST_BACKTRACE=0
mkdir -p /verif/work /verif/evidence /verif/replays
cargo build --release --offline
# pre-build the quick tier of the generated Rust harness (cached by content; the checks rebuild
# only what a change in /repo alters)
./target/release/pdlmc build-rust quick
# the two small harnesses of C11 (d) (CLI text vs #[pdl_inline]); same content-keyed caching
./target/release/pdlmc build-derive quick
echo "setup ok"
