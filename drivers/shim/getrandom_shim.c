// LD_PRELOAD shim: deterministic, enumerable hash seeds for Rust's RandomState.
// VERIF_HASH_SEED=<n> selects the stream; without it the real getrandom is used.
#define _GNU_SOURCE
#include <dlfcn.h>
#include <stdint.h>
#include <stdlib.h>
#include <string.h>
#include <sys/types.h>

static uint64_t state;
static int inited;

static uint64_t next(void) {
  // splitmix64
  uint64_t z = (state += 0x9e3779b97f4a7c15ULL);
  z = (z ^ (z >> 30)) * 0xbf58476d1ce4e5b9ULL;
  z = (z ^ (z >> 27)) * 0x94d049bb133111ebULL;
  return z ^ (z >> 31);
}

ssize_t getrandom(void *buf, size_t len, unsigned int flags) {
  const char *s = getenv("VERIF_HASH_SEED");
  if (!s) {
    ssize_t (*real)(void *, size_t, unsigned int) = dlsym(RTLD_NEXT, "getrandom");
    return real ? real(buf, len, flags) : -1;
  }
  if (!inited) {
    state = strtoull(s, 0, 10) * 0x2545F4914F6CDD1DULL + 12345;
    inited = 1;
  }
  unsigned char *p = buf;
  size_t i = 0;
  while (i < len) {
    uint64_t v = next();
    size_t n = len - i < 8 ? len - i : 8;
    memcpy(p + i, &v, n);
    i += n;
  }
  return (ssize_t)len;
}
