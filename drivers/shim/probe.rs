// prints the iteration order of small std HashMaps under the current hash seed
use std::collections::HashMap;
fn main() {
    let mut out = vec![];
    for n in 2..=4usize {
        let m: HashMap<String, usize> = (0..n).map(|i| (format!("k{i}"), i)).collect();
        let order: Vec<String> = m.values().map(|v| v.to_string()).collect();
        out.push(order.join(""));
    }
    println!("{}", out.join(" "));
}
