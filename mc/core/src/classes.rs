//! Class predicates decided on the model, and JSON <-> model value conversion.

use crate::ir::*;
use crate::model::*;
use crate::sizes::{self, Size};
use serde_json::Value as J;
use std::collections::BTreeMap;

/// The reference gives a single, implementation independent answer for every byte string of
/// this type: within each declaration only the last field may be of unknown size (an unsized,
/// uncounted array or an unknown-size struct), an unsized payload is followed by statically
/// sized fields only, padded arrays without size/count field are excluded (padding zeros and
/// elements cannot be told apart), and zero-size array elements are excluded.
pub fn deterministic(d: &Desc, type_id: &str) -> Result<(), String> {
    fn check_decl(d: &Desc, decl: &Decl, depth: usize) -> Result<(), String> {
        if depth > 6 {
            return Err("nesting too deep".into());
        }
        let fields = decl.fields();
        for (i, f) in fields.iter().enumerate() {
            let next_is_padding = matches!(fields.get(i + 1).map(|n| &n.kind), Some(FieldKind::Padding { .. }));
            let last = i + 1 == fields.len() || (next_is_padding && i + 2 == fields.len());
            let fs = sizes::field_size(d, decl, f);
            match &f.kind {
                FieldKind::Array { elem, .. } => {
                    if fs == Size::Unknown {
                        if next_is_padding {
                            return Err("padded array without size or count".into());
                        }
                        if !last {
                            return Err("unsized array that is not the last field".into());
                        }
                    }
                    if let Elem::Type(t) = elem {
                        if let Some(td) = d.get(t) {
                            if td.is_struct() {
                                if sizes::total_size(d, t) == Size::Static(0) {
                                    return Err("array of zero-size structs".into());
                                }
                                if sizes::total_size(d, t) == Size::Unknown && fs != Size::Unknown && !matches!(fs, Size::Static(_)) {
                                    // counted / sized array of unknown-size elements: the first
                                    // element swallows the region
                                    return Err("delimited array of unknown-size elements".into());
                                }
                                for a in d.ancestry(t) {
                                    if a.id != decl.id {
                                        check_decl(d, a, depth + 1)?;
                                    }
                                }
                            }
                        }
                    }
                }
                FieldKind::Typedef { type_id, .. } => {
                    if let Some(td) = d.get(type_id) {
                        if td.is_struct() {
                            if fs == Size::Unknown && !last {
                                return Err("unknown-size struct that is not the last field".into());
                            }
                            for a in d.ancestry(type_id) {
                                check_decl(d, a, depth + 1)?;
                            }
                        }
                    }
                }
                FieldKind::Payload { .. } | FieldKind::Body => {
                    if fs == Size::Unknown {
                        for g in &fields[i + 1..] {
                            let gs = sizes::field_size(d, decl, g);
                            if !matches!(gs, Size::Static(_)) {
                                return Err("unsized payload followed by a field of non-constant size".into());
                            }
                        }
                    }
                }
                _ => {}
            }
        }
        let unknown = fields.iter().filter(|f| f.cond.is_none() && sizes::field_size(d, decl, f) == Size::Unknown).count();
        if unknown > 1 {
            return Err("more than one field of unknown size".into());
        }
        Ok(())
    }
    for a in d.ancestry(type_id) {
        check_decl(d, a, 0)?;
    }
    Ok(())
}

/// No parent value can match two different children.
pub fn unambiguous(m: &Model, type_id: &str) -> bool {
    for a in m.d.ancestry(type_id) {
        if m.d.children(&a.id).next().is_some() && m.specialize_uses_size(&a.id).is_none() {
            return false;
        }
    }
    true
}

/// JSON (as produced by serde for the generated Rust type) -> model value.
pub fn val_from_json(m: &Model, type_id: &str, j: &J) -> Option<Val> {
    let obj = j.as_object()?;
    let mut rec = BTreeMap::new();
    for (_, f) in m.data_fields(type_id) {
        let id = f.id().unwrap();
        let x = obj.get(id)?;
        rec.insert(id.to_string(), field_from_json(m, f, x)?);
    }
    if m.decl(type_id).payload().is_some() {
        let p = obj.get("payload")?.as_array()?;
        rec.insert("payload".into(), Val::Bytes(p.iter().map(|x| x.as_u64().unwrap_or(0) as u8).collect()));
    }
    Some(Val::Rec(rec))
}

fn elem_from_json(m: &Model, ety: &ElemTy, x: &J) -> Option<Val> {
    match ety {
        ElemTy::Scalar(_) | ElemTy::Enum(_, _) | ElemTy::Custom(_, _) => Some(Val::Int(x.as_u64()?)),
        ElemTy::Struct(s) => val_from_json(m, s, x),
        ElemTy::Unsupported => None,
    }
}

fn field_from_json(m: &Model, f: &Field, x: &J) -> Option<Val> {
    let inner = |x: &J| -> Option<Val> {
        match &f.kind {
            FieldKind::Scalar { .. } => Some(Val::Int(x.as_u64()?)),
            FieldKind::Typedef { type_id, .. } => elem_from_json(m, &m.elem_ty(&Elem::Type(type_id.clone())), x),
            FieldKind::Array { elem, .. } => {
                let ety = m.elem_ty(elem);
                let a = x.as_array()?;
                Some(Val::Arr(a.iter().map(|e| elem_from_json(m, &ety, e)).collect::<Option<Vec<_>>>()?))
            }
            _ => None,
        }
    };
    if f.cond.is_some() {
        if x.is_null() {
            Some(Val::Opt(None))
        } else {
            Some(Val::Opt(Some(Box::new(inner(x)?))))
        }
    } else {
        inner(x)
    }
}

/// Expected Debug rendering of the generated Rust enum variant for integer `x`
/// (named tag when one exists, else the range / default variant carrying x).
pub fn enum_variant_debug(d: &Desc, enum_id: &str, x: u64) -> Option<String> {
    let tags = match d.get(enum_id) {
        Some(Decl { kind: DeclKind::Enum { tags, .. }, .. }) => tags,
        _ => return None,
    };
    for t in tags {
        match t {
            Tag::Value { id, value } if *value == x => return Some(camel(id)),
            Tag::Range { tags, .. } => {
                for (sid, sv) in tags {
                    if *sv == x {
                        return Some(camel(sid));
                    }
                }
            }
            _ => {}
        }
    }
    for t in tags {
        if let Tag::Range { id, lo, hi, .. } = t {
            if *lo <= x && x <= *hi {
                return Some(format!("{}({x})", camel(id)));
            }
        }
    }
    for t in tags {
        if let Tag::Other { id } = t {
            return Some(format!("{}({x})", camel(id)));
        }
    }
    None
}

/// heck's UpperCamelCase for the identifiers the explorer uses (letters, digits, underscores)
pub fn camel(id: &str) -> String {
    let mut out = String::new();
    let mut up = true;
    let mut prev_lower = false;
    for ch in id.chars() {
        if ch == '_' {
            up = true;
            prev_lower = false;
            continue;
        }
        if up {
            out.extend(ch.to_uppercase());
            up = false;
        } else if ch.is_uppercase() && prev_lower {
            out.push(ch);
        } else {
            out.extend(ch.to_lowercase());
        }
        prev_lower = ch.is_lowercase() || ch.is_ascii_digit();
    }
    out
}

/// Identity of a generated type: the canonical text of every declaration it can reach (its
/// ancestors, field types and descendants) plus the byte order. Identical types in other
/// modules are generated from identical text and are checked once.
pub fn type_key(inl: &Desc, ty: &str) -> u64 {
    use std::collections::BTreeSet;
    let mut ids: BTreeSet<String> = BTreeSet::new();
    fn reach(d: &Desc, id: &str, ids: &mut BTreeSet<String>) {
        if !ids.insert(id.to_string()) {
            return;
        }
        if let Some(decl) = d.get(id) {
            if let Some(p) = decl.parent() {
                reach(d, p, ids);
            }
            for f in decl.fields() {
                match &f.kind {
                    FieldKind::Typedef { type_id, .. } | FieldKind::Array { elem: Elem::Type(type_id), .. } => reach(d, type_id, ids),
                    FieldKind::FixedEnum { enum_id, .. } => reach(d, enum_id, ids),
                    _ => {}
                }
            }
            let children: Vec<String> = d.children(id).map(|c| c.id.clone()).collect();
            for c in children {
                reach(d, &c, ids);
            }
        }
    }
    reach(inl, ty, &mut ids);
    let sub = Desc { endian: inl.endian, decls: inl.decls.iter().filter(|d| ids.contains(&d.id)).cloned().collect() };
    fnv1a(format!("{ty}|{}", crate::render::canonical(&sub)).as_bytes())
}

/// Construct classes of a type (used in signatures so that one defect has one signature and a
/// different construct gives a different one).
pub fn construct_classes(inl: &Desc, ty: &str) -> Vec<&'static str> {
    let mut c: std::collections::BTreeSet<&'static str> = std::collections::BTreeSet::new();
    fn walk(d: &Desc, ty: &str, c: &mut std::collections::BTreeSet<&'static str>, depth: usize) {
        if depth > 4 {
            return;
        }
        for a in d.ancestry(ty) {
            if a.parent().is_some() {
                c.insert("child");
            }
            let fields = a.fields();
            for (i, f) in fields.iter().enumerate() {
                if f.cond.is_some() {
                    match &f.kind {
                        FieldKind::Scalar { .. } => {
                            c.insert("optional-scalar");
                        }
                        FieldKind::Typedef { type_id, .. } => {
                            if d.get(type_id).map(|x| x.is_struct()).unwrap_or(false) {
                                c.insert("optional-struct");
                                walk(d, type_id, c, depth + 1);
                            } else {
                                c.insert("optional-enum");
                            }
                        }
                        _ => {}
                    }
                    continue;
                }
                match &f.kind {
                    FieldKind::Array { id, elem, shape } => {
                        let padded = matches!(fields.get(i + 1).map(|n| &n.kind), Some(FieldKind::Padding { .. }));
                        if padded {
                            c.insert("padded-array");
                        }
                        let has = |k: u8| {
                            fields.iter().any(|g| match (&g.kind, k) {
                                (FieldKind::Size { field_id, .. }, 0) => field_id == id,
                                (FieldKind::Count { field_id, .. }, 1) => field_id == id,
                                (FieldKind::ElementSize { field_id, .. }, 2) => field_id == id,
                                _ => false,
                            })
                        };
                        match shape {
                            Shape::Static(_) => {
                                c.insert("static-array");
                            }
                            _ => {
                                if has(0) {
                                    c.insert("sized-array");
                                } else if has(1) {
                                    c.insert("counted-array");
                                } else {
                                    c.insert("unsized-array");
                                }
                            }
                        }
                        if has(2) {
                            c.insert("elementsize-array");
                        }
                        match elem {
                            Elem::Width(8) => {
                                c.insert("byte-elements");
                            }
                            Elem::Width(_) => {
                                c.insert("scalar-elements");
                            }
                            Elem::Type(t) => match d.get(t).map(|x| &x.kind) {
                                Some(DeclKind::Enum { .. }) => {
                                    c.insert("enum-elements");
                                }
                                Some(DeclKind::Struct { .. }) => {
                                    c.insert("struct-elements");
                                    walk(d, t, c, depth + 1);
                                }
                                Some(DeclKind::Custom { .. }) => {
                                    c.insert("custom-elements");
                                }
                                _ => {}
                            },
                        }
                    }
                    FieldKind::Typedef { type_id, .. } => match d.get(type_id).map(|x| &x.kind) {
                        Some(DeclKind::Struct { .. }) => {
                            c.insert("struct-field");
                            walk(d, type_id, c, depth + 1);
                        }
                        Some(DeclKind::Custom { .. }) => {
                            c.insert("custom-field");
                        }
                        Some(DeclKind::Enum { .. }) => {
                            c.insert("enum-field");
                        }
                        _ => {}
                    },
                    FieldKind::Payload { modifier } => {
                        c.insert(if modifier.is_some() { "payload-with-modifier" } else { "payload" });
                    }
                    FieldKind::Body => {
                        c.insert("body");
                    }
                    FieldKind::Size { .. } => {
                        c.insert("size-field");
                    }
                    FieldKind::Count { .. } => {
                        c.insert("count-field");
                    }
                    FieldKind::ElementSize { .. } => {
                        c.insert("elementsize-field");
                    }
                    FieldKind::FixedScalar { .. } | FieldKind::FixedEnum { .. } => {
                        c.insert("fixed");
                    }
                    FieldKind::Reserved { .. } => {
                        c.insert("reserved");
                    }
                    FieldKind::Scalar { .. } => {
                        c.insert("scalar");
                    }
                    _ => {}
                }
            }
        }
    }
    walk(inl, ty, &mut c, 0);
    c.into_iter().collect()
}

