//! Executable reference semantics of doc/reference.md (DESIGN.md Appendix B).
//!
//! Deliberately boring: big-integer bit accumulator, recursive walk over the (group-inlined)
//! IR.  Nothing here looks at generator internals.

use crate::ir::*;
use std::collections::{BTreeMap, BTreeSet};

#[derive(Debug, Clone, PartialEq, Eq, Hash, PartialOrd, Ord, serde::Serialize, serde::Deserialize)]
pub enum Val {
    Int(u64),
    Bytes(Vec<u8>),
    Arr(Vec<Val>),
    Rec(BTreeMap<String, Val>),
    Opt(Option<Box<Val>>),
}

impl Val {
    pub fn rec(&self) -> &BTreeMap<String, Val> {
        match self {
            Val::Rec(m) => m,
            _ => panic!("not a record: {self:?}"),
        }
    }
    pub fn int(&self) -> u64 {
        match self {
            Val::Int(v) => *v,
            _ => panic!("not an int: {self:?}"),
        }
    }
    pub fn to_json(&self) -> serde_json::Value {
        use serde_json::Value as J;
        match self {
            Val::Int(v) => J::from(*v),
            Val::Bytes(b) => J::Array(b.iter().map(|x| J::from(*x)).collect()),
            Val::Arr(a) => J::Array(a.iter().map(|x| x.to_json()).collect()),
            Val::Rec(m) => J::Object(m.iter().map(|(k, v)| (k.clone(), v.to_json())).collect()),
            Val::Opt(None) => J::Null,
            Val::Opt(Some(v)) => v.to_json(),
        }
    }
}

#[derive(Debug, Clone, Copy, PartialEq, Eq, Hash, PartialOrd, Ord, serde::Serialize, serde::Deserialize)]
pub enum EncFault {
    /// a scalar (or array element / optional scalar / custom value) exceeds its declared width
    ScalarRange,
    /// array / payload larger than its size field or padding can express
    SizeOverflow,
    CountOverflow,
    /// elements of an array with an element-size field have different sizes
    ElemSize,
    /// optional fields imply contradictory values for their shared flag
    Inconsistent,
}

#[derive(Debug, Clone, Copy, PartialEq, Eq, Hash, PartialOrd, Ord, serde::Serialize, serde::Deserialize)]
pub enum Fault {
    Length,
    Fixed,
    Enum,
    ArraySize,
    Trailing,
    TrailingInArray,
    Constraint,
}

#[derive(Debug, Clone, PartialEq, Eq, serde::Serialize, serde::Deserialize)]
pub enum BitKind {
    Scalar,
    Flag,
    Size,
    Count,
    ElemSize,
    Fixed,
    Reserved,
    Enum,
}

#[derive(Debug, Clone, PartialEq, Eq, serde::Serialize, serde::Deserialize)]
pub struct BitMember {
    pub name: String,
    pub kind: BitKind,
    pub shift: u64,
    pub width: u64,
}

#[derive(Debug, Clone, PartialEq, Eq, serde::Serialize, serde::Deserialize)]
pub enum ChunkKind {
    /// bit-field group (byte-swapped as a whole)
    Group(Vec<BitMember>),
    /// one scalar / enum array element, optional scalar / enum, sized custom field
    Word,
    /// byte array elements of width 8, payload bytes
    Bytes,
    Padding,
}

#[derive(Debug, Clone, PartialEq, Eq, serde::Serialize, serde::Deserialize)]
pub struct Chunk {
    pub start: usize,
    pub len: usize,
    pub kind: ChunkKind,
    pub owner: String,
}

#[derive(Debug, Clone, Default)]
pub struct Enc {
    pub bytes: Vec<u8>,
    pub chunks: Vec<Chunk>,
}

pub struct Model<'a> {
    /// group-inlined description
    pub d: &'a Desc,
    /// where the last Length fault was found (diagnostics for signatures)
    pub length_ctx: std::cell::Cell<&'static str>,
    /// where the last encode fault was found
    pub enc_ctx: std::cell::Cell<&'static str>,
    /// collect mode: encode faults are recorded here and encoding continues
    pub enc_collect: std::cell::RefCell<Option<Vec<(EncFault, &'static str)>>>,
    /// classification aid (never an oracle): when set, faults found *inside the elements* of an
    /// array of the outermost declaration whose extent does not depend on its elements (size
    /// field, element size known) are forgiven. Used to tell "elements are not validated" from
    /// other false accepts of a lazily parsing backend.
    pub lenient_elems: std::cell::Cell<bool>,
    struct_depth: std::cell::Cell<u32>,
}

#[derive(Debug, Clone, PartialEq, Eq)]
pub enum ElemTy {
    Scalar(u64),
    Enum(String, u64),
    Struct(String),
    Custom(String, u64),
    Unsupported,
}

pub fn enum_accepts(d: &Desc, enum_id: &str, x: u64) -> bool {
    match d.get(enum_id) {
        Some(Decl { kind: DeclKind::Enum { width, tags }, .. }) => {
            if x > max_of_width(*width) {
                return false;
            }
            tags.iter().any(|t| match t {
                Tag::Value { value, .. } => *value == x,
                Tag::Range { lo, hi, .. } => *lo <= x && x <= *hi,
                Tag::Other { .. } => true,
            })
        }
        _ => false,
    }
}

pub fn enum_tag_value(d: &Desc, enum_id: &str, tag: &str) -> Option<u64> {
    match d.get(enum_id) {
        Some(Decl { kind: DeclKind::Enum { tags, .. }, .. }) => {
            for t in tags {
                match t {
                    Tag::Value { id, value } if id == tag => return Some(*value),
                    Tag::Range { tags, .. } => {
                        for (sid, sv) in tags {
                            if sid == tag {
                                return Some(*sv);
                            }
                        }
                    }
                    _ => {}
                }
            }
            None
        }
        _ => None,
    }
}

impl<'a> Model<'a> {
    pub fn new(d: &'a Desc) -> Model<'a> {
        Model { d, length_ctx: std::cell::Cell::new("none"), enc_ctx: std::cell::Cell::new("none"), enc_collect: std::cell::RefCell::new(None), lenient_elems: std::cell::Cell::new(false), struct_depth: std::cell::Cell::new(0) }
    }

    /// report an encode fault: aborts the encoding, or records it in collect mode
    fn ef(&self, ctx: &'static str, f: EncFault) -> Result<(), EncFault> {
        self.enc_ctx.set(ctx);
        if let Some(v) = self.enc_collect.borrow_mut().as_mut() {
            v.push((f, ctx));
            return Ok(());
        }
        Err(f)
    }

    /// every fault the reference finds in a value (the bytes are meaningless when non-empty)
    pub fn encode_faults(&self, type_id: &str, v: &Val) -> Vec<(EncFault, &'static str)> {
        *self.enc_collect.borrow_mut() = Some(vec![]);
        let r = std::panic::catch_unwind(std::panic::AssertUnwindSafe(|| self.encode(type_id, v)));
        let got = self.enc_collect.borrow_mut().take().unwrap_or_default();
        let _ = r;
        got
    }

    fn length_fault(&self, faults: &mut BTreeSet<Fault>, ctx: &'static str) {
        self.length_ctx.set(ctx);
        faults.insert(Fault::Length);
    }

    pub fn decl(&self, id: &str) -> &'a Decl {
        self.d.get(id).unwrap_or_else(|| panic!("no decl {id}"))
    }

    /// flag id -> [(optional field id, condition value)] for one declaration
    pub fn flags(&self, decl: &Decl) -> BTreeMap<String, Vec<(String, u64)>> {
        let mut m: BTreeMap<String, Vec<(String, u64)>> = BTreeMap::new();
        for f in decl.fields() {
            if let (Some(c), Some(id)) = (&f.cond, f.id()) {
                if let CVal::Int(v) = c.val {
                    m.entry(c.id.clone()).or_default().push((id.to_string(), v));
                }
            }
        }
        m
    }

    /// All constraints that apply to a value of type `id` (own and inherited).
    pub fn all_constraints(&self, id: &str) -> BTreeMap<String, CVal> {
        let mut m = BTreeMap::new();
        for a in self.d.ancestry(id) {
            for c in a.constraints() {
                m.entry(c.id.clone()).or_insert(c.val.clone());
            }
        }
        m
    }

    /// Named data fields of the generated value type (own and inherited, unconstrained, no flags).
    pub fn data_fields(&self, id: &str) -> Vec<(&'a Decl, &'a Field)> {
        let cs = self.all_constraints(id);
        let mut out = vec![];
        for a in self.d.ancestry(id) {
            let flags = self.flags(a);
            for f in a.fields() {
                if let Some(fid) = f.id() {
                    if flags.contains_key(fid) || cs.contains_key(fid) {
                        continue;
                    }
                    out.push((a, f));
                }
            }
        }
        out
    }

    pub fn find_field(&self, type_id: &str, field_id: &str) -> Option<(&'a Decl, &'a Field)> {
        for a in self.d.ancestry(type_id) {
            for f in a.fields() {
                if f.id() == Some(field_id) {
                    return Some((a, f));
                }
            }
        }
        None
    }

    pub fn cval_int(&self, type_id: &str, field_id: &str, c: &CVal) -> Option<u64> {
        match c {
            CVal::Int(v) => Some(*v),
            CVal::Tag(t) => {
                let (_, f) = self.find_field(type_id, field_id)?;
                match &f.kind {
                    FieldKind::Typedef { type_id, .. } => enum_tag_value(self.d, type_id, t),
                    _ => None,
                }
            }
        }
    }

    pub fn elem_ty(&self, e: &Elem) -> ElemTy {
        match e {
            Elem::Width(w) => ElemTy::Scalar(*w),
            Elem::Type(t) => match self.d.get(t).map(|d| &d.kind) {
                Some(DeclKind::Enum { width, .. }) => ElemTy::Enum(t.clone(), *width),
                Some(DeclKind::Struct { .. }) => ElemTy::Struct(t.clone()),
                Some(DeclKind::Custom { width: Some(w), .. }) => ElemTy::Custom(t.clone(), *w),
                _ => ElemTy::Unsupported,
            },
        }
    }

    // ------------------------------------------------------------------ encode

    fn put_word(&self, out: &mut Enc, v: u64, nbytes: usize, kind: ChunkKind, owner: &str) {
        let start = out.bytes.len();
        for i in 0..nbytes {
            let shift = match self.d.endian {
                Endian::Little => 8 * i,
                Endian::Big => 8 * (nbytes - 1 - i),
            };
            out.bytes.push(if shift >= 64 { 0 } else { (v >> shift) as u8 });
        }
        out.chunks.push(Chunk { start, len: nbytes, kind, owner: owner.to_string() });
    }

    pub fn encode(&self, type_id: &str, v: &Val) -> Result<Enc, EncFault> {
        let chain = self.d.ancestry(type_id);
        let cs = self.all_constraints(type_id);
        let rec = v.rec();
        // innermost first
        let mut inner: Option<Enc> = None;
        for decl in chain.iter() {
            let payload: Option<Enc> = match inner.take() {
                Some(e) => Some(e),
                None => rec.get("payload").map(|p| match p {
                    Val::Bytes(b) => Enc {
                        bytes: b.clone(),
                        chunks: vec![Chunk { start: 0, len: b.len(), kind: ChunkKind::Bytes, owner: format!("{}.payload", decl.id) }],
                    },
                    _ => panic!("payload is not bytes"),
                }),
            };
            inner = Some(self.encode_fields(type_id, decl, rec, &cs, payload)?);
        }
        Ok(inner.unwrap())
    }

    fn encode_fields(
        &self,
        type_id: &str,
        decl: &Decl,
        rec: &BTreeMap<String, Val>,
        cs: &BTreeMap<String, CVal>,
        payload: Option<Enc>,
    ) -> Result<Enc, EncFault> {
        let mut out = Enc::default();
        let flags = self.flags(decl);
        let fields = decl.fields();
        let mut acc: u128 = 0;
        let mut acc_bits: u64 = 0;
        let mut members: Vec<BitMember> = vec![];

        // pre-encode arrays (sizes are needed by size fields that precede them)
        let mut arrays: BTreeMap<String, (Vec<Enc>, usize)> = BTreeMap::new();
        for f in fields {
            if let FieldKind::Array { id, elem, .. } = &f.kind {
                let ety = self.elem_ty(elem);
                let vals = match rec.get(id) {
                    Some(Val::Arr(a)) => a.clone(),
                    Some(Val::Bytes(b)) => b.iter().map(|x| Val::Int(*x as u64)).collect(),
                    other => panic!("array field {id} has value {other:?}"),
                };
                let mut encs = vec![];
                for e in &vals {
                    let mut one = Enc::default();
                    match &ety {
                        ElemTy::Scalar(w) | ElemTy::Enum(_, w) | ElemTy::Custom(_, w) => {
                            let x = e.int();
                            if x > max_of_width(*w) {
                                self.ef(if [8, 16, 32, 64].contains(w) { "array-element:native-width" } else { "array-element:non-native-width" }, EncFault::ScalarRange)?;
                            }
                            let kind = if *w == 8 && matches!(ety, ElemTy::Scalar(_)) { ChunkKind::Bytes } else { ChunkKind::Word };
                            self.put_word(&mut one, x, (*w / 8) as usize, kind, &format!("{}.{}[]", decl.id, id));
                        }
                        ElemTy::Struct(s) => one = self.encode(s, e)?,
                        ElemTy::Unsupported => panic!("unsupported element type"),
                    }
                    encs.push(one);
                }
                let total = encs.iter().map(|e| e.bytes.len()).sum();
                arrays.insert(id.clone(), (encs, total));
            }
        }
        let payload_len = payload.as_ref().map(|p| p.bytes.len()).unwrap_or(0);

        let mut i = 0;
        while i < fields.len() {
            let f = &fields[i];
            // optional fields
            if let Some(_c) = &f.cond {
                assert_eq!(acc_bits, 0, "optional field off a byte boundary");
                let id = f.id().unwrap();
                match rec.get(id) {
                    Some(Val::Opt(None)) => {}
                    Some(Val::Opt(Some(inner))) => match &f.kind {
                        FieldKind::Scalar { width, .. } => {
                            let x = inner.int();
                            if x > max_of_width(*width) {
                                self.ef("optional-scalar", EncFault::ScalarRange)?;
                            }
                            self.put_word(&mut out, x, (*width / 8) as usize, ChunkKind::Word, &format!("{}.{}", decl.id, id));
                        }
                        FieldKind::Typedef { type_id: t, .. } => match self.d.get(t).map(|d| &d.kind) {
                            Some(DeclKind::Enum { width, .. }) => {
                                self.put_word(&mut out, inner.int(), (*width / 8) as usize, ChunkKind::Word, &format!("{}.{}", decl.id, id));
                            }
                            Some(DeclKind::Struct { .. }) => {
                                let e = self.encode(t, inner)?;
                                append(&mut out, e);
                            }
                            Some(DeclKind::Custom { width: Some(w), .. }) => {
                                self.put_word(&mut out, inner.int(), (*w / 8) as usize, ChunkKind::Word, &format!("{}.{}", decl.id, id));
                            }
                            _ => panic!("unsupported optional typedef"),
                        },
                        _ => panic!("unsupported optional field"),
                    },
                    other => panic!("optional field {id} has value {other:?}"),
                }
                i += 1;
                continue;
            }
            // bit-fields
            if crate::rules::is_bitfield(self.d, f) {
                let w = crate::rules::bitfield_width(self.d, f).unwrap();
                let (val, kind, name): (u64, BitKind, String) = match &f.kind {
                    FieldKind::Scalar { id, width } => {
                        if let Some(users) = flags.get(id) {
                            // flag: value implied by the presence of the optional fields
                            let mut implied: BTreeSet<u64> = BTreeSet::new();
                            for (oid, cv) in users {
                                let present = matches!(rec.get(oid), Some(Val::Opt(Some(_))));
                                implied.insert(if present { *cv } else { 1 - *cv });
                            }
                            if implied.len() != 1 {
                                self.ef("shared-flag", EncFault::Inconsistent)?;
                            }
                            (*implied.iter().next().unwrap(), BitKind::Flag, id.clone())
                        } else if let Some(c) = cs.get(id) {
                            (self.cval_int(type_id, id, c).expect("constraint value"), BitKind::Fixed, id.clone())
                        } else {
                            let x = rec.get(id).unwrap_or_else(|| panic!("missing field {id}")).int();
                            if x > max_of_width(*width) {
                                self.ef("scalar", EncFault::ScalarRange)?;
                            }
                            (x, BitKind::Scalar, id.clone())
                        }
                    }
                    FieldKind::Typedef { id, type_id: t } => {
                        if let Some(c) = cs.get(id) {
                            (self.cval_int(type_id, id, c).expect("constraint value"), BitKind::Fixed, id.clone())
                        } else {
                            let x = rec.get(id).unwrap_or_else(|| panic!("missing field {id}")).int();
                            let _ = t;
                            (x, BitKind::Enum, id.clone())
                        }
                    }
                    FieldKind::Reserved { .. } => (0, BitKind::Reserved, "_reserved_".into()),
                    FieldKind::FixedScalar { value, .. } => (*value, BitKind::Fixed, "_fixed_".into()),
                    FieldKind::FixedEnum { enum_id, tag_id } => (
                        enum_tag_value(self.d, enum_id, tag_id).expect("fixed enum tag"),
                        BitKind::Fixed,
                        "_fixed_".into(),
                    ),
                    FieldKind::Size { field_id, width } => {
                        let n: u64 = if field_id == "_payload_" || field_id == "_body_" {
                            let modifier = match decl.payload().map(|p| &p.kind) {
                                Some(FieldKind::Payload { modifier: Some(k) }) => *k,
                                _ => 0,
                            };
                            payload_len as u64 + modifier
                        } else {
                            // a size modifier on the array: the field announces k octets more
                            let modifier = decl
                                .fields()
                                .iter()
                                .find_map(|g| match &g.kind {
                                    FieldKind::Array { id, shape: Shape::Modifier(k), .. } if id == field_id => Some(*k),
                                    _ => None,
                                })
                                .unwrap_or(0);
                            arrays.get(field_id).map(|a| a.1 as u64).unwrap_or(0) + modifier
                        };
                        if n > max_of_width(*width) {
                            self.ef(if field_id.starts_with('_') { "payload-size-field" } else { "array-size-field" }, EncFault::SizeOverflow)?;
                        }
                        (n, BitKind::Size, format!("_size_({field_id})"))
                    }
                    FieldKind::Count { field_id, width } => {
                        let n = arrays.get(field_id).map(|a| a.0.len() as u64).unwrap_or(0);
                        if n > max_of_width(*width) {
                            self.ef(if [8, 16, 32, 64].contains(width) { "count-field:native-width" } else { "count-field:narrow" }, EncFault::CountOverflow)?;
                        }
                        (n, BitKind::Count, format!("_count_({field_id})"))
                    }
                    FieldKind::ElementSize { field_id, width } => {
                        let (encs, _) = arrays.get(field_id).expect("elementsize target");
                        let first = encs.first().map(|e| e.bytes.len()).unwrap_or(0);
                        if encs.iter().any(|e| e.bytes.len() != first) {
                            self.ef("elementsize-field", EncFault::ElemSize)?;
                        }
                        if first as u64 > max_of_width(*width) {
                            self.ef("elementsize-field", EncFault::SizeOverflow)?;
                        }
                        (first as u64, BitKind::ElemSize, format!("_elementsize_({field_id})"))
                    }
                    _ => unreachable!(),
                };
                if w < 64 && val >= (1u64 << w) {
                    // fixed / enum constants always fit in a well-formed description
                    self.ef("bit-field", EncFault::ScalarRange)?;
                }
                acc |= (val as u128) << acc_bits;
                members.push(BitMember { name, kind, shift: acc_bits, width: w });
                acc_bits += w;
                if acc_bits % 8 == 0 {
                    let n = (acc_bits / 8) as usize;
                    let start = out.bytes.len();
                    for k in 0..n {
                        let shift = match self.d.endian {
                            Endian::Little => 8 * k,
                            Endian::Big => 8 * (n - 1 - k),
                        };
                        out.bytes.push((acc >> shift) as u8);
                    }
                    out.chunks.push(Chunk { start, len: n, kind: ChunkKind::Group(std::mem::take(&mut members)), owner: decl.id.clone() });
                    acc = 0;
                    acc_bits = 0;
                }
                i += 1;
                continue;
            }
            assert_eq!(acc_bits, 0, "non bit-field off a byte boundary in {}", decl.id);
            match &f.kind {
                FieldKind::Array { id, .. } => {
                    let (encs, total) = arrays.remove(id).unwrap();
                    let pad = match fields.get(i + 1).map(|n| &n.kind) {
                        Some(FieldKind::Padding { size }) => Some(*size as usize),
                        _ => None,
                    };
                    if let Some(p) = pad {
                        if total > p {
                            self.ef("array-padding", EncFault::SizeOverflow)?;
                        }
                    }
                    for e in encs {
                        append(&mut out, e);
                    }
                    if let Some(p) = pad {
                        let start = out.bytes.len();
                        out.bytes.extend(std::iter::repeat(0).take(p.saturating_sub(total)));
                        out.chunks.push(Chunk { start, len: p.saturating_sub(total), kind: ChunkKind::Padding, owner: format!("{}.{}", decl.id, id) });
                    }
                }
                FieldKind::Padding { .. } => {}
                FieldKind::Typedef { id, type_id: t } => match self.d.get(t).map(|d| &d.kind) {
                    Some(DeclKind::Struct { .. }) => {
                        let e = self.encode(t, rec.get(id).unwrap_or_else(|| panic!("missing field {id}")))?;
                        append(&mut out, e);
                    }
                    Some(DeclKind::Custom { width: Some(w), .. }) => {
                        let x = rec.get(id).unwrap().int();
                        if x > max_of_width(*w) {
                            self.ef("custom-field", EncFault::ScalarRange)?;
                        }
                        self.put_word(&mut out, x, (*w / 8) as usize, ChunkKind::Word, &format!("{}.{}", decl.id, id));
                    }
                    _ => panic!("unsupported typedef {t}"),
                },
                FieldKind::Payload { .. } | FieldKind::Body => {
                    if let Some(p) = &payload {
                        append(&mut out, p.clone());
                    }
                }
                other => panic!("cannot encode {other:?}"),
            }
            i += 1;
        }
        assert_eq!(acc_bits, 0, "declaration {} does not end on a byte boundary", decl.id);
        Ok(out)
    }

    // ------------------------------------------------------------------ decode

    fn get_word(&self, b: &[u8]) -> u64 {
        let mut v: u64 = 0;
        let n = b.len();
        for (i, x) in b.iter().enumerate() {
            let shift = match self.d.endian {
                Endian::Little => 8 * i,
                Endian::Big => 8 * (n - 1 - i),
            };
            if shift < 64 {
                v |= (*x as u64) << shift;
            }
        }
        v
    }

    /// Decode a prefix of `b` as a value of `type_id`.
    /// Returns (value, bytes consumed) when no fault was found; the faults otherwise.
    /// In collect mode decoding continues after recoverable faults so that the *set* of fault
    /// kinds is reported.
    pub fn decode(&self, type_id: &str, b: &[u8]) -> Result<(Val, usize), BTreeSet<Fault>> {
        self.length_ctx.set("none");
        let mut faults = BTreeSet::new();
        let r = self.decode_type(type_id, b, &mut faults);
        match r {
            Some((v, n)) if faults.is_empty() => Ok((v, n)),
            _ => Err(faults),
        }
    }

    pub fn decode_full(&self, type_id: &str, b: &[u8]) -> Result<Val, BTreeSet<Fault>> {
        self.length_ctx.set("none");
        let mut faults = BTreeSet::new();
        let r = self.decode_type(type_id, b, &mut faults);
        match r {
            Some((v, n)) => {
                if n != b.len() {
                    faults.insert(Fault::Trailing);
                }
                if faults.is_empty() {
                    Ok(v)
                } else {
                    Err(faults)
                }
            }
            None => Err(faults),
        }
    }

    fn decode_type(&self, type_id: &str, b: &[u8], faults: &mut BTreeSet<Fault>) -> Option<(Val, usize)> {
        let decl = self.decl(type_id);
        match decl.parent() {
            None => {
                let (rec, n) = self.decode_fields(decl, b, faults)?;
                Some((Val::Rec(rec), n))
            }
            Some(p) => {
                let (pv, n) = self.decode_type(p, b, faults)?;
                let child = self.decode_partial(type_id, &pv, faults)?;
                Some((child, n))
            }
        }
    }

    /// Parent value -> child value (the reference meaning of `Child::try_from(&parent)`).
    pub fn decode_partial(&self, type_id: &str, parent: &Val, faults: &mut BTreeSet<Fault>) -> Option<Val> {
        let decl = self.decl(type_id);
        let pid = decl.parent().unwrap();
        let prec = parent.rec();
        // constraints declared on this declaration
        for c in decl.constraints() {
            if let (Some(actual), Some(expected)) = (prec.get(&c.id), self.cval_int(pid, &c.id, &c.val)) {
                if actual.int() != expected {
                    faults.insert(Fault::Constraint);
                }
            }
        }
        let pdecl = self.decl(pid);
        let mut rec: BTreeMap<String, Val> = BTreeMap::new();
        if pdecl.payload().is_some() {
            let payload = match prec.get("payload") {
                Some(Val::Bytes(b)) => b.clone(),
                _ => vec![],
            };
            let (own, n) = self.decode_fields(decl, &payload, faults)?;
            if n != payload.len() {
                faults.insert(Fault::Trailing);
            }
            rec = own;
        }
        // copy the inherited data fields that are not constrained for this type
        let cs = self.all_constraints(type_id);
        for (k, v) in prec {
            if k == "payload" || cs.contains_key(k) {
                continue;
            }
            rec.entry(k.clone()).or_insert(v.clone());
        }
        Some(Val::Rec(rec))
    }

    /// Number of octets taken by the statically sized fields after position `i` (None when one of
    /// them is not statically sized).
    fn static_tail(&self, decl: &Decl, i: usize) -> Option<usize> {
        let fields = decl.fields();
        let mut bits: u64 = 0;
        let mut k = i + 1;
        while k < fields.len() {
            let f = &fields[k];
            let padded = match fields.get(k + 1).map(|n| &n.kind) {
                Some(FieldKind::Padding { size }) if matches!(f.kind, FieldKind::Array { .. }) => Some(*size * 8),
                _ => None,
            };
            let s = match padded {
                Some(p) => crate::sizes::Size::Static(p),
                None => crate::sizes::field_size(self.d, decl, f),
            };
            match s {
                crate::sizes::Size::Static(n) => bits += n,
                _ => return None,
            }
            k += 1;
        }
        Some((bits / 8) as usize)
    }

    fn decode_elem(&self, ety: &ElemTy, b: &[u8], faults: &mut BTreeSet<Fault>, site: u8) -> Option<(Val, usize)> {
        // site: 0 = array element, 1 = optional field, 2 = typedef field
        match ety {
            ElemTy::Scalar(w) | ElemTy::Custom(_, w) => {
                let n = (*w / 8) as usize;
                if b.len() < n {
                    let custom = matches!(ety, ElemTy::Custom(..));
                    self.length_fault(faults, match (site, custom) {
                        (0, false) => "array-element:scalar",
                        (0, true) => "array-element:custom",
                        (1, false) => "optional:scalar",
                        (1, true) => "optional:custom",
                        (_, true) => "typedef:custom",
                        _ => "typedef:scalar",
                    });
                    return None;
                }
                Some((Val::Int(self.get_word(&b[..n])), n))
            }
            ElemTy::Enum(e, w) => {
                let n = (*w / 8) as usize;
                if b.len() < n {
                    self.length_fault(faults, match site {
                        0 => "array-element:enum",
                        1 => "optional:enum",
                        _ => "typedef:enum",
                    });
                    return None;
                }
                let x = self.get_word(&b[..n]);
                if !enum_accepts(self.d, e, x) {
                    faults.insert(Fault::Enum);
                }
                Some((Val::Int(x), n))
            }
            ElemTy::Struct(s) => {
                self.struct_depth.set(self.struct_depth.get() + 1);
                let r = self.decode_type(s, b, faults);
                self.struct_depth.set(self.struct_depth.get() - 1);
                r
            }
            ElemTy::Unsupported => panic!("unsupported element"),
        }
    }

    fn decode_fields(
        &self,
        decl: &Decl,
        b: &[u8],
        faults: &mut BTreeSet<Fault>,
    ) -> Option<(BTreeMap<String, Val>, usize)> {
        let fields = decl.fields();
        let flags = self.flags(decl);
        let mut rec: BTreeMap<String, Val> = BTreeMap::new();
        let mut pos: usize = 0;
        let mut sizes: BTreeMap<String, u64> = BTreeMap::new();
        let mut counts: BTreeMap<String, u64> = BTreeMap::new();
        let mut esizes: BTreeMap<String, u64> = BTreeMap::new();
        let mut flagvals: BTreeMap<String, u64> = BTreeMap::new();

        let mut i = 0;
        while i < fields.len() {
            let f = &fields[i];
            if let Some(c) = &f.cond {
                let id = f.id().unwrap().to_string();
                let fv = flagvals.get(&c.id).copied();
                let cv = match c.val {
                    CVal::Int(v) => v,
                    _ => panic!("bad condition"),
                };
                if fv != Some(cv) {
                    rec.insert(id, Val::Opt(None));
                    i += 1;
                    continue;
                }
                let ety = match &f.kind {
                    FieldKind::Scalar { width, .. } => ElemTy::Scalar(*width),
                    FieldKind::Typedef { type_id, .. } => self.elem_ty(&Elem::Type(type_id.clone())),
                    _ => panic!("bad optional field"),
                };
                let (v, n) = self.decode_elem(&ety, &b[pos..], faults, 1)?;
                pos += n;
                rec.insert(id, Val::Opt(Some(Box::new(v))));
                i += 1;
                continue;
            }
            if crate::rules::is_bitfield(self.d, f) {
                // gather the whole group
                let mut group: Vec<(&Field, u64, u64)> = vec![];
                let mut bits = 0u64;
                let mut k = i;
                while k < fields.len() {
                    let g = &fields[k];
                    if g.cond.is_some() || !crate::rules::is_bitfield(self.d, g) {
                        break;
                    }
                    let w = crate::rules::bitfield_width(self.d, g).unwrap();
                    group.push((g, bits, w));
                    bits += w;
                    k += 1;
                    if bits % 8 == 0 {
                        break;
                    }
                }
                assert!(bits % 8 == 0, "bit-field group not aligned in {}", decl.id);
                let n = (bits / 8) as usize;
                if b.len() - pos < n {
                    self.length_fault(faults, "bit-field-group");
                    return None;
                }
                let mut acc: u128 = 0;
                for (j, x) in b[pos..pos + n].iter().enumerate() {
                    let shift = match self.d.endian {
                        Endian::Little => 8 * j,
                        Endian::Big => 8 * (n - 1 - j),
                    };
                    acc |= (*x as u128) << shift;
                }
                pos += n;
                for (g, shift, w) in group {
                    let mask: u128 = if w >= 64 { u64::MAX as u128 } else { (1u128 << w) - 1 };
                    let x = ((acc >> shift) & mask) as u64;
                    match &g.kind {
                        FieldKind::Scalar { id, .. } => {
                            if flags.contains_key(id) {
                                flagvals.insert(id.clone(), x);
                            } else {
                                rec.insert(id.clone(), Val::Int(x));
                            }
                        }
                        FieldKind::Typedef { id, type_id } => {
                            if !enum_accepts(self.d, type_id, x) {
                                faults.insert(Fault::Enum);
                            }
                            rec.insert(id.clone(), Val::Int(x));
                        }
                        FieldKind::Reserved { .. } => {}
                        FieldKind::FixedScalar { value, .. } => {
                            if x != *value {
                                faults.insert(Fault::Fixed);
                            }
                        }
                        FieldKind::FixedEnum { enum_id, tag_id } => {
                            if Some(x) != enum_tag_value(self.d, enum_id, tag_id) {
                                faults.insert(Fault::Fixed);
                            }
                        }
                        FieldKind::Size { field_id, .. } => {
                            sizes.insert(field_id.clone(), x);
                        }
                        FieldKind::Count { field_id, .. } => {
                            counts.insert(field_id.clone(), x);
                        }
                        FieldKind::ElementSize { field_id, .. } => {
                            esizes.insert(field_id.clone(), x);
                        }
                        _ => unreachable!(),
                    }
                }
                i = k;
                continue;
            }
            match &f.kind {
                FieldKind::Padding { .. } => {}
                FieldKind::Array { id, elem, shape } => {
                    let ety = self.elem_ty(elem);
                    let pad = match fields.get(i + 1).map(|n| &n.kind) {
                        Some(FieldKind::Padding { size }) => Some(*size as usize),
                        _ => None,
                    };
                    // the region the array lives in
                    let avail: &[u8] = match pad {
                        Some(p) => {
                            if b.len() - pos < p {
                                self.length_fault(faults, "array-padding-region");
                                return None;
                            }
                            &b[pos..pos + p]
                        }
                        None => &b[pos..],
                    };
                    let static_elem: Option<usize> = match &ety {
                        ElemTy::Scalar(w) | ElemTy::Enum(_, w) | ElemTy::Custom(_, w) => Some((*w / 8) as usize),
                        ElemTy::Struct(s) => match crate::sizes::total_size(self.d, s) {
                            crate::sizes::Size::Static(n) => Some((n / 8) as usize),
                            _ => None,
                        },
                        ElemTy::Unsupported => panic!("unsupported element"),
                    };
                    let esize = esizes.get(id).map(|x| *x as usize);
                    let mut elems: Vec<Val> = vec![];
                    let mut used: usize = 0;
                    // decode `count` elements (None: until the region is exhausted)
                    let unit0 = esize.filter(|_| static_elem.is_none()).or(static_elem);
                    let lenient_here = self.lenient_elems.get() && self.struct_depth.get() == 0 && (unit0.is_some() || sizes.contains_key(id));
                    let mut run = |region: &[u8], count: Option<u64>, faults: &mut BTreeSet<Fault>| -> Option<usize> {
                        let mut p = 0usize;
                        let mut n = 0u64;
                        loop {
                            match count {
                                Some(c) if n >= c => break,
                                None if p >= region.len() => break,
                                _ => {}
                            }
                            let before = if lenient_here { Some(faults.clone()) } else { None };
                            let mut stop = false;
                            let step = (|| -> Option<usize> {
                                match esize {
                                    Some(es) if static_elem.is_none() => {
                                        if region.len() - p < es {
                                            self.length_fault(faults, "array-elementsize-chunk");
                                            return None;
                                        }
                                        let chunk = &region[p..p + es];
                                        let (v, used) = self.decode_elem(&ety, chunk, faults, 0)?;
                                        if used != es {
                                            faults.insert(Fault::TrailingInArray);
                                            return None;
                                        }
                                        elems.push(v);
                                        if es == 0 && count.is_none() {
                                            stop = true;
                                        }
                                        Some(es)
                                    }
                                    _ => {
                                        let (v, used) = self.decode_elem(&ety, &region[p..], faults, 0)?;
                                        elems.push(v);
                                        if used == 0 && count.is_none() {
                                            stop = true;
                                        }
                                        Some(used)
                                    }
                                }
                            })();
                            if let Some(b4) = before {
                                if step.is_none() || *faults != b4 {
                                    *faults = b4;
                                    return Some(match count {
                                        Some(c) => (c as usize).saturating_mul(unit0.unwrap_or(0)).min(region.len()),
                                        None => region.len(),
                                    });
                                }
                            }
                            p += step?;
                            if stop {
                                break;
                            }
                            n += 1;
                        }
                        Some(p)
                    };
                    match shape {
                        Shape::Static(n) => {
                            // elements of known size that cannot all fit: a Length fault of the
                            // array as a whole (found before any element is looked at)
                            if let Some(u) = unit0 {
                                if u > 0 && (*n as u128) * (u as u128) > avail.len() as u128 {
                                    self.length_fault(faults, "array-static");
                                    return None;
                                }
                            }
                            used = run(avail, Some(*n), faults)?;
                        }
                        Shape::Unsized | Shape::Modifier(_) => {
                            if let Some(c) = counts.get(id) {
                                // a count larger than the region can hold can never succeed
                                let min_elem = esize.filter(|_| static_elem.is_none()).or(static_elem).unwrap_or(0);
                                if min_elem > 0 && (*c as u128) * (min_elem as u128) > avail.len() as u128 {
                                    self.length_fault(faults, "array-count");
                                    return None;
                                }
                                if min_elem == 0 && *c > (avail.len() as u64 + 1) * 4 && static_elem.is_none() && esize.is_none() {
                                    // zero-size elements repeated a huge number of times: unspecified
                                }
                                used = run(avail, Some(*c), faults)?;
                            } else if let Some(s) = sizes.get(id) {
                                let modifier = match shape {
                                    Shape::Modifier(k) => *k,
                                    _ => 0,
                                };
                                if *s < modifier {
                                    self.length_fault(faults, "array-size-modifier");
                                    return None;
                                }
                                let s = (*s - modifier) as usize;
                                if avail.len() < s {
                                    self.length_fault(faults, if pad.is_some() { "array-size-beyond-padding" } else { "array-size" });
                                    return None;
                                }
                                let unit = esize.filter(|_| static_elem.is_none()).or(static_elem);
                                if let Some(u) = unit {
                                    if u == 0 {
                                        if s != 0 {
                                            faults.insert(Fault::ArraySize);
                                            return None;
                                        }
                                    } else if s % u != 0 {
                                        faults.insert(Fault::ArraySize);
                                        return None;
                                    }
                                }
                                let p = run(&avail[..s], None, faults)?;
                                let _ = p;
                                used = s;
                            } else {
                                // nothing delimits the array: it takes the rest of its region
                                // (minus what statically sized trailing fields need)
                                let region = match pad {
                                    Some(_) => avail,
                                    None => {
                                        let tail = self.static_tail(decl, i).unwrap_or(0);
                                        if avail.len() < tail {
                                            self.length_fault(faults, "array-tail");
                                            return None;
                                        }
                                        &avail[..avail.len() - tail]
                                    }
                                };
                                let unit = esize.filter(|_| static_elem.is_none()).or(static_elem);
                                if let Some(u) = unit {
                                    if u != 0 && region.len() % u != 0 {
                                        faults.insert(Fault::ArraySize);
                                        return None;
                                    }
                                }
                                used = run(region, None, faults)?;
                            }
                        }
                    }
                    pos += match pad {
                        Some(p) => p,
                        None => used,
                    };
                    let is_bytes = matches!(ety, ElemTy::Scalar(8));
                    let _ = is_bytes;
                    rec.insert(id.clone(), Val::Arr(elems));
                }
                FieldKind::Typedef { id, type_id } => {
                    let ety = self.elem_ty(&Elem::Type(type_id.clone()));
                    let (v, n) = self.decode_elem(&ety, &b[pos..], faults, 2)?;
                    pos += n;
                    rec.insert(id.clone(), v);
                }
                FieldKind::Payload { .. } | FieldKind::Body => {
                    let key = if matches!(f.kind, FieldKind::Body) { "_body_" } else { "_payload_" };
                    let n = if let Some(s) = sizes.get(key) {
                        let modifier = match &f.kind {
                            FieldKind::Payload { modifier: Some(k) } => *k,
                            _ => 0,
                        };
                        if *s < modifier {
                            self.length_fault(faults, "payload-size-modifier");
                            return None;
                        }
                        let s = (*s - modifier) as usize;
                        if b.len() - pos < s {
                            self.length_fault(faults, "payload-size");
                            return None;
                        }
                        s
                    } else {
                        let tail = self.static_tail(decl, i).unwrap_or(0);
                        if b.len() - pos < tail {
                            self.length_fault(faults, "payload-tail");
                            return None;
                        }
                        b.len() - pos - tail
                    };
                    rec.insert("payload".into(), Val::Bytes(b[pos..pos + n].to_vec()));
                    pos += n;
                }
                other => panic!("cannot decode {other:?}"),
            }
            i += 1;
        }
        Some((rec, pos))
    }

    // ------------------------------------------------------------------ inheritance

    /// (child id, constraint tuple on the parent's data fields, static octet size of the case)
    fn specialize_cases(&self, parent_id: &str) -> Vec<(String, BTreeMap<String, u64>, Option<u64>)> {
        let data: BTreeSet<String> =
            self.data_fields(parent_id).iter().map(|(_, f)| f.id().unwrap().to_string()).collect();
        let mut out = vec![];
        fn rec_cases(
            m: &Model,
            top: &str,
            decl: &Decl,
            data: &BTreeSet<String>,
            cs: &BTreeMap<String, u64>,
            out: &mut Vec<(String, BTreeMap<String, u64>, Option<u64>)>,
        ) {
            let mut cs = cs.clone();
            for c in decl.constraints() {
                if data.contains(&c.id) {
                    if let Some(v) = m.cval_int(&decl.id, &c.id, &c.val) {
                        cs.insert(c.id.clone(), v);
                    }
                }
            }
            for ch in m.d.children(&decl.id) {
                rec_cases(m, top, ch, data, &cs, out);
            }
            let size = match (crate::sizes::decl_size(m.d, &decl.id), crate::sizes::payload_size(m.d, &decl.id)) {
                (crate::sizes::Size::Static(a), crate::sizes::Size::Static(b)) => Some((a + b) / 8),
                _ => None,
            };
            out.push((top.to_string(), cs, size));
        }
        for ch in self.d.children(parent_id) {
            rec_cases(self, &ch.id, ch, &data, &BTreeMap::new(), &mut out);
        }
        out
    }

    /// None = ambiguous (two different children share a case)
    pub fn specialize_uses_size(&self, parent_id: &str) -> Option<bool> {
        let cases = self.specialize_cases(parent_id);
        let mut with_size: BTreeMap<(Vec<(String, u64)>, Option<u64>), String> = BTreeMap::new();
        for (id, cs, size) in &cases {
            let key = (cs.iter().map(|(k, v)| (k.clone(), *v)).collect::<Vec<_>>(), *size);
            if let Some(prev) = with_size.insert(key, id.clone()) {
                if prev != *id {
                    return None;
                }
            }
        }
        let mut without: BTreeMap<Vec<(String, u64)>, String> = BTreeMap::new();
        for (id, cs, _) in &cases {
            let key = cs.iter().map(|(k, v)| (k.clone(), *v)).collect::<Vec<_>>();
            if let Some(prev) = without.insert(key, id.clone()) {
                if prev != *id {
                    return Some(true);
                }
            }
        }
        Some(false)
    }

    /// For each matching direct child: does a case with a non-empty constraint tuple match?
    pub fn specialize_matches_detail(&self, parent_id: &str, pv: &Val) -> Vec<(String, bool)> {
        let uses_size = self.specialize_uses_size(parent_id).unwrap_or(false);
        let prec = pv.rec();
        let plen = match prec.get("payload") {
            Some(Val::Bytes(b)) => b.len() as u64,
            _ => 0,
        };
        let mut out: Vec<(String, bool)> = vec![];
        for (id, cs, size) in self.specialize_cases(parent_id) {
            let fields_ok = cs.iter().all(|(k, v)| prec.get(k).map(|x| x.int() == *v).unwrap_or(false));
            let size_ok = !uses_size || size.map(|s| s == plen).unwrap_or(true);
            if fields_ok && size_ok {
                let constrained = !cs.is_empty() || (uses_size && size.is_some());
                match out.iter_mut().find(|x| x.0 == id) {
                    Some(e) => e.1 |= constrained,
                    None => out.push((id, constrained)),
                }
            }
        }
        out
    }

    /// Which direct children match the parent value. The caller decides what a multiple match
    /// means (the description is then outside the `unambiguous` class for this value).
    pub fn specialize_matches(&self, parent_id: &str, pv: &Val) -> Vec<String> {
        let uses_size = self.specialize_uses_size(parent_id).unwrap_or(false);
        let prec = pv.rec();
        let plen = match prec.get("payload") {
            Some(Val::Bytes(b)) => b.len() as u64,
            _ => 0,
        };
        let mut out: Vec<String> = vec![];
        for (id, cs, size) in self.specialize_cases(parent_id) {
            let fields_ok = cs.iter().all(|(k, v)| prec.get(k).map(|x| x.int() == *v).unwrap_or(false));
            let size_ok = !uses_size || size.map(|s| s == plen).unwrap_or(true);
            if fields_ok && size_ok && !out.contains(&id) {
                out.push(id);
            }
        }
        out
    }
}

fn append(out: &mut Enc, e: Enc) {
    let off = out.bytes.len();
    out.bytes.extend_from_slice(&e.bytes);
    for mut c in e.chunks {
        c.start += off;
        out.chunks.push(c);
    }
}

/// Reverse the bytes of every swappable chunk: the reference relation between the encodings
/// of a description and its endianness twin.
pub fn swap_chunks(e: &Enc) -> Vec<u8> {
    let mut b = e.bytes.clone();
    for c in &e.chunks {
        match c.kind {
            ChunkKind::Group(_) | ChunkKind::Word => b[c.start..c.start + c.len].reverse(),
            _ => {}
        }
    }
    b
}

pub fn hex(b: &[u8]) -> String {
    let mut s = String::with_capacity(b.len() * 2);
    for x in b {
        s.push_str(&format!("{x:02x}"));
    }
    s
}

pub fn unhex(s: &str) -> Vec<u8> {
    (0..s.len() / 2).map(|i| u8::from_str_radix(&s[2 * i..2 * i + 2], 16).unwrap()).collect()
}
