//! Selection of the states that the compiled tiers execute: the well-formed, backend-supported
//! subset of the explored graph, helper declarations pruned, in BFS order, completely up to a
//! per (family, depth) cap and by a fixed stride beyond it (reported in the evidence).

use crate::graph::{Explored, Tier};
use crate::ir::*;
use crate::rules;
use crate::support::{unsupported, Lang};
use std::collections::{BTreeMap, HashSet};

#[derive(Debug, Clone, serde::Serialize, serde::Deserialize)]
pub struct Selected {
    pub id: usize,
    pub family: String,
    pub depth: usize,
    pub desc: Desc,
}

/// Drop declarations nothing refers to, except packets and the structs that are not used as a
/// type by anyone (they are the subjects).
pub fn prune(d: &Desc) -> Desc {
    let mut decls = d.decls.clone();
    loop {
        let mut used: HashSet<String> = HashSet::new();
        for decl in &decls {
            if let Some(p) = decl.parent() {
                used.insert(p.to_string());
            }
            for f in decl.fields() {
                match &f.kind {
                    FieldKind::Typedef { type_id, .. } | FieldKind::Array { elem: Elem::Type(type_id), .. } => {
                        used.insert(type_id.clone());
                    }
                    FieldKind::FixedEnum { enum_id, .. } => {
                        used.insert(enum_id.clone());
                    }
                    FieldKind::Group { group_id, .. } => {
                        used.insert(group_id.clone());
                    }
                    _ => {}
                }
            }
        }
        // the subjects: the last packet/struct declared and everything that inherits
        let subject_ids: HashSet<String> = {
            let mut s = HashSet::new();
            for decl in &decls {
                if decl.is_packet() {
                    s.insert(decl.id.clone());
                }
            }
            // structs named P / R / C* / S* are subjects when nothing uses them but they were
            // grown by the explorer: keep every struct that has fields differing from helpers is
            // not decidable here, so keep structs that are parents or children
            for decl in &decls {
                if decl.is_struct() && (decl.parent().is_some() || decls.iter().any(|x| x.parent() == Some(decl.id.as_str()))) {
                    s.insert(decl.id.clone());
                }
            }
            s
        };
        let before = decls.len();
        let keep_struct_roots: HashSet<&str> = ["P", "R", "W", "Q"].into_iter().collect();
        decls.retain(|x| used.contains(&x.id) || subject_ids.contains(&x.id) || (x.is_struct() && keep_struct_roots.contains(x.id.as_str())));
        if decls.len() == before {
            break;
        }
    }
    Desc { endian: d.endian, decls }
}

pub fn cap(tier: Tier) -> usize {
    match tier {
        Tier::Quick => 30,
        Tier::Thorough => 400,
    }
}

pub struct Selection {
    pub states: Vec<Selected>,
    /// (family, depth, eligible, taken)
    pub strata: Vec<(String, usize, usize, usize)>,
}

pub fn select(e: &Explored, tier: Tier, lang: Lang, extra: &dyn Fn(&Desc, &Desc) -> bool) -> Selection {
    let mut strata: BTreeMap<(String, usize), Vec<Desc>> = BTreeMap::new();
    let mut order: Vec<(String, usize)> = vec![];
    let mut seen: HashSet<Desc> = HashSet::new();
    for s in &e.states {
        if !rules::rules(&s.desc).is_empty() || rules::unspecified(&s.desc).is_some() {
            continue;
        }
        let pruned = prune(&s.desc);
        if !pruned.decls.iter().any(|d| d.is_pkt_or_struct() || matches!(d.kind, DeclKind::Enum { .. })) {
            continue;
        }
        let inl = match rules::inline_groups(&pruned) {
            Some(i) => i,
            None => continue,
        };
        if unsupported(lang, &inl).is_some() || !extra(&pruned, &inl) {
            continue;
        }
        if !seen.insert(pruned.clone()) {
            continue;
        }
        let key = (s.family.to_string(), s.depth);
        if !strata.contains_key(&key) {
            order.push(key.clone());
        }
        strata.entry(key).or_default().push(pruned);
    }
    let c = cap(tier);
    let mut states = vec![];
    let mut report = vec![];
    for key in order {
        let v = &strata[&key];
        let n = v.len();
        let taken: Vec<&Desc> = if n <= c {
            v.iter().collect()
        } else {
            // (1) the first state (BFS order) of every distinct construct signature of the
            //     stratum, so that every combination of constructs the graph produces is
            //     compiled at least once; (2) a fixed stride through the BFS order on top
            let mut idx: std::collections::BTreeSet<usize> = std::collections::BTreeSet::new();
            let mut sigs: HashSet<Vec<String>> = HashSet::new();
            for (i, d) in v.iter().enumerate() {
                if let Some(inl) = rules::inline_groups(d) {
                    if sigs.insert(signature(&inl)) {
                        idx.insert(i);
                    }
                }
            }
            // at most 2*cap signature representatives (stride through them), then the stride
            let reps: Vec<usize> = idx.iter().copied().collect();
            if reps.len() > 2 * c {
                idx = (0..2 * c).map(|i| reps[i * reps.len() / (2 * c)]).collect();
            }
            for i in 0..c / 2 {
                idx.insert(i * n / (c / 2));
            }
            idx.into_iter().map(|i| &v[i]).collect()
        };
        report.push((key.0.clone(), key.1, n, taken.len()));
        for d in taken {
            states.push(Selected { id: states.len(), family: key.0.clone(), depth: key.1, desc: d.clone() });
        }
    }
    Selection { states, strata: report }
}

/// Construct signature of a description: the construct classes of every packet/struct plus
/// coarse numeric features (widths of size/count fields relative to their backing type, element
/// widths, padding relative to nothing, enum shape).
pub fn signature(inl: &Desc) -> Vec<String> {
    let mut out: Vec<String> = vec![];
    for d in &inl.decls {
        match &d.kind {
            DeclKind::Packet { .. } | DeclKind::Struct { .. } => {
                let mut c: Vec<String> = crate::classes::construct_classes(inl, &d.id).iter().map(|s| s.to_string()).collect();
                for f in d.fields() {
                    match &f.kind {
                        FieldKind::Size { width, .. } | FieldKind::Count { width, .. } | FieldKind::ElementSize { width, .. } => {
                            c.push(format!("szw{}", if [8, 16, 32, 64].contains(width) { "native" } else { "narrow" }));
                        }
                        FieldKind::Array { elem: Elem::Width(w), .. } => c.push(format!("ew{}", if [8, 16, 32, 64].contains(w) { "native" } else { "odd" })),
                        FieldKind::Padding { size } => c.push(format!("pad{}", if *size == 0 { "0" } else if *size < 8 { "small" } else { "big" })),
                        FieldKind::Scalar { width, .. } if f.cond.is_some() => c.push(format!("optw{}", if [8, 16, 32, 64].contains(width) { "native" } else { "odd" })),
                        // own scalars of a derived declaration: one octet / several octets / other
                        FieldKind::Scalar { width, .. } if d.parent().is_some() => c.push(format!("csw{}", if *width == 8 { "8" } else if width % 8 == 0 { "multi" } else { "bits" })),
                        _ => {}
                    }
                }
                c.sort();
                c.dedup();
                out.push(format!("{}:{}", d.kind_name(), c.join(",")));
            }
            _ => {}
        }
    }
    out.sort();
    out
}
