//! Value and byte-string enumerators (DESIGN.md 3.3 / 3.4). Everything is enumerated in a fixed
//! order; nothing is sampled.

use crate::ir::*;
use crate::model::*;
use std::collections::BTreeMap;

#[derive(Debug, Clone, Copy, PartialEq, Eq)]
pub struct Budget {
    /// cap on values per type (the space below the cap is enumerated completely; hitting the
    /// cap is reported)
    pub max_values: usize,
    pub pairs: bool,
    pub nested_alts: usize,
    pub max_array_len: usize,
}

impl Budget {
    pub fn quick() -> Budget {
        Budget { max_values: 400, pairs: true, nested_alts: 3, max_array_len: 300 }
    }
    pub fn thorough() -> Budget {
        Budget { max_values: 6000, pairs: true, nested_alts: 6, max_array_len: 70000 }
    }
}

#[derive(Debug, Clone)]
pub struct FieldAlts {
    pub id: String,
    /// alternatives that a well-formed value may take (first = base)
    pub ok: Vec<Val>,
    /// alternatives outside the declared range (C05)
    pub bad: Vec<Val>,
}

fn backing(w: u64) -> u64 {
    for b in [8, 16, 32, 64] {
        if w <= b {
            return b;
        }
    }
    64
}

fn pattern(seed: u64, w: u64) -> u64 {
    // a distinct, non-symmetric bit pattern per field
    let p = 0xA5C3_96E1_7B2D_F084u64.rotate_left((seed * 7 % 64) as u32) ^ (seed.wrapping_mul(0x0101_0101_0101_0101));
    p & max_of_width(w)
}

pub fn scalar_alts(seed: u64, w: u64) -> (Vec<u64>, Vec<u64>) {
    let max = max_of_width(w);
    let mut ok = vec![pattern(seed, w)];
    for c in [0u64, 1, 2, if w >= 1 { 1u64 << (w - 1) } else { 0 }, max.saturating_sub(1), max] {
        if c <= max && !ok.contains(&c) {
            ok.push(c);
        }
    }
    let mut bad = vec![];
    let b = backing(w);
    if b > w {
        bad.push(1u64 << w);
        let bm = max_of_width(b);
        if !bad.contains(&bm) {
            bad.push(bm);
        }
    }
    (ok, bad)
}

pub fn enum_alts(d: &Desc, enum_id: &str) -> (Vec<u64>, Vec<u64>) {
    let (w, tags) = match d.get(enum_id) {
        Some(Decl { kind: DeclKind::Enum { width, tags }, .. }) => (*width, tags),
        _ => return (vec![0], vec![]),
    };
    let max = max_of_width(w);
    let mut ok: Vec<u64> = vec![];
    let mut push = |x: u64, ok: &mut Vec<u64>| {
        if x <= max && enum_accepts(d, enum_id, x) && !ok.contains(&x) {
            ok.push(x);
        }
    };
    for t in tags {
        match t {
            Tag::Value { value, .. } => push(*value, &mut ok),
            Tag::Range { lo, hi, tags, .. } => {
                for (_, v) in tags {
                    push(*v, &mut ok);
                }
                push(*lo, &mut ok);
                push(*hi, &mut ok);
                push(lo + (hi - lo) / 2, &mut ok);
            }
            Tag::Other { .. } => {}
        }
    }
    // values only the default tag covers
    for c in [0u64, 1, max / 2 + 1, max.saturating_sub(1), max] {
        push(c, &mut ok);
    }
    // values the enum rejects (not constructible as a Rust value; used for byte-level mutants)
    let mut bad = vec![];
    for c in [0u64, 1, 2, 3, max / 2, max.saturating_sub(1), max] {
        if c <= max && !enum_accepts(d, enum_id, c) && !bad.contains(&c) {
            bad.push(c);
        }
    }
    if ok.is_empty() {
        ok.push(0);
    }
    (ok, bad)
}

pub struct ValueGen<'a> {
    pub m: &'a Model<'a>,
    pub budget: Budget,
}

impl<'a> ValueGen<'a> {
    fn elem_vals(&self, ety: &ElemTy, seed: u64, depth: usize) -> (Vec<Val>, Vec<Val>) {
        match ety {
            ElemTy::Scalar(w) | ElemTy::Custom(_, w) => {
                let (ok, bad) = scalar_alts(seed, *w);
                (ok.into_iter().map(Val::Int).collect(), bad.into_iter().map(Val::Int).collect())
            }
            ElemTy::Enum(e, _) => {
                let (ok, _) = enum_alts(self.m.d, e);
                (ok.into_iter().map(Val::Int).collect(), vec![])
            }
            ElemTy::Struct(s) => {
                let vs = self.values_depth(s, depth + 1);
                (vs.ok.into_iter().take(self.budget.nested_alts.max(1)).collect(), vs.bad.into_iter().take(2).collect())
            }
            ElemTy::Unsupported => (vec![], vec![]),
        }
    }

    fn elem_len(&self, ety: &ElemTy, v: &Val) -> usize {
        match ety {
            ElemTy::Scalar(w) | ElemTy::Custom(_, w) | ElemTy::Enum(_, w) => (*w / 8) as usize,
            ElemTy::Struct(s) => self.m.encode(s, v).map(|e| e.bytes.len()).unwrap_or(0),
            ElemTy::Unsupported => 0,
        }
    }

    fn field_alts(&self, decl: &Decl, f: &Field, seed: u64, depth: usize) -> FieldAlts {
        let id = f.id().unwrap().to_string();
        let (mut ok, mut bad): (Vec<Val>, Vec<Val>) = (vec![], vec![]);
        match &f.kind {
            FieldKind::Scalar { width, .. } => {
                let (o, b) = scalar_alts(seed, *width);
                ok = o.into_iter().map(Val::Int).collect();
                bad = b.into_iter().map(Val::Int).collect();
            }
            FieldKind::Typedef { type_id, .. } => {
                let ety = self.m.elem_ty(&Elem::Type(type_id.clone()));
                let (o, b) = self.elem_vals(&ety, seed, depth);
                ok = o;
                bad = b;
            }
            FieldKind::Array { id: aid, elem, shape } => {
                let ety = self.m.elem_ty(elem);
                let (eo, eb) = self.elem_vals(&ety, seed, depth);
                let nth = |i: usize| -> Val {
                    match &ety {
                        ElemTy::Scalar(w) | ElemTy::Custom(_, w) => Val::Int(pattern(seed + 13 * i as u64 + 1, *w)),
                        _ => eo[i % eo.len().max(1)].clone(),
                    }
                };
                let fields = decl.fields();
                let pos = fields.iter().position(|x| std::ptr::eq(x, f)).unwrap();
                let pad = match fields.get(pos + 1).map(|n| &n.kind) {
                    Some(FieldKind::Padding { size }) => Some(*size as usize),
                    _ => None,
                };
                let count_w = fields.iter().find_map(|g| match &g.kind {
                    FieldKind::Count { field_id, width } if field_id == aid => Some(*width),
                    _ => None,
                });
                let size_w = fields.iter().find_map(|g| match &g.kind {
                    FieldKind::Size { field_id, width } if field_id == aid => Some(*width),
                    _ => None,
                });
                let has_esize = fields.iter().any(|g| matches!(&g.kind, FieldKind::ElementSize { field_id, .. } if field_id == aid));
                match shape {
                    Shape::Static(n) => {
                        let n = *n as usize;
                        ok.push(Val::Arr((0..n).map(nth).collect()));
                        // one element deviating at a time (first, last)
                        for (k, alt) in eo.iter().enumerate().skip(1).take(4) {
                            if n > 0 {
                                let mut a: Vec<Val> = (0..n).map(nth).collect();
                                let idx = if k % 2 == 0 { 0 } else { n - 1 };
                                a[idx] = alt.clone();
                                ok.push(Val::Arr(a));
                            }
                        }
                        for alt in eb.iter().take(2) {
                            if n > 0 {
                                let mut a: Vec<Val> = (0..n).map(nth).collect();
                                a[n - 1] = alt.clone();
                                bad.push(Val::Arr(a));
                            }
                        }
                    }
                    _ => {
                        let el = if eo.is_empty() { 1 } else { self.elem_len(&ety, &nth(0)).max(1) };
                        // largest length expressible
                        let mut max_len: Option<usize> = None;
                        let mut lim = |n: usize| {
                            max_len = Some(max_len.map(|m| m.min(n)).unwrap_or(n));
                        };
                        if let Some(w) = count_w {
                            if w < 24 {
                                lim(max_of_width(w) as usize);
                            }
                        }
                        if let Some(w) = size_w {
                            if w < 24 {
                                lim(max_of_width(w) as usize / el);
                            }
                        }
                        if let Some(p) = pad {
                            lim(p / el);
                        }
                        let mut lens = vec![2usize, 0, 1, 3];
                        if let Some(m) = max_len {
                            if m <= self.budget.max_array_len {
                                lens.push(m);
                            }
                        }
                        lens.dedup();
                        let mut seen = vec![];
                        for n in lens {
                            if seen.contains(&n) {
                                continue;
                            }
                            seen.push(n);
                            if let Some(m) = max_len {
                                if n > m {
                                    continue;
                                }
                            }
                            ok.push(Val::Arr((0..n).map(nth).collect()));
                        }
                        // element deviations
                        for alt in eo.iter().skip(1).take(4) {
                            if max_len.map(|m| m >= 2).unwrap_or(true) {
                                ok.push(Val::Arr(vec![nth(0), alt.clone()]));
                            }
                        }
                        // unequal element sizes (only meaningful with dynamic elements)
                        if has_esize && eo.len() > 1 {
                            let l0 = self.elem_len(&ety, &eo[0]);
                            if let Some(other) = eo.iter().find(|x| self.elem_len(&ety, x) != l0) {
                                bad.push(Val::Arr(vec![eo[0].clone(), other.clone()]));
                            }
                        }
                        if let Some(m) = max_len {
                            if m + 1 <= self.budget.max_array_len + 1 {
                                bad.push(Val::Arr((0..m + 1).map(nth).collect()));
                            }
                        }
                        for alt in eb.iter().take(2) {
                            bad.push(Val::Arr(vec![alt.clone()]));
                        }
                    }
                }
            }
            _ => {}
        }
        if f.cond.is_some() {
            let mut o2 = vec![Val::Opt(Some(Box::new(ok[0].clone()))), Val::Opt(None)];
            for x in ok.iter().skip(1) {
                o2.push(Val::Opt(Some(Box::new(x.clone()))));
            }
            ok = o2;
            bad = bad.into_iter().map(|x| Val::Opt(Some(Box::new(x)))).collect();
        }
        FieldAlts { id, ok, bad }
    }

    fn payload_alts(&self, type_id: &str) -> FieldAlts {
        let decl = self.m.decl(type_id);
        let mut ok: Vec<Val> = vec![];
        let mk = |n: usize| Val::Bytes((0..n).map(|i| (0x31 + i * 7) as u8).collect());
        for n in [3usize, 0, 1, 2] {
            ok.push(mk(n));
        }
        // sizes the children need
        for ch in self.m.d.children(type_id) {
            if let (crate::sizes::Size::Static(a), crate::sizes::Size::Static(b)) =
                (crate::sizes::decl_size(self.m.d, &ch.id), crate::sizes::payload_size(self.m.d, &ch.id))
            {
                let n = ((a + b) / 8) as usize;
                if n <= 64 && !ok.contains(&mk(n)) {
                    ok.push(mk(n));
                }
            }
        }
        let mut bad = vec![];
        let size_w = decl.fields().iter().find_map(|g| match &g.kind {
            FieldKind::Size { field_id, width } if field_id == "_payload_" || field_id == "_body_" => Some(*width),
            _ => None,
        });
        let modifier = match decl.payload().map(|p| &p.kind) {
            Some(FieldKind::Payload { modifier: Some(k) }) => *k as usize,
            _ => 0,
        };
        if let Some(w) = size_w {
            if w < 24 {
                let m = (max_of_width(w) as usize).saturating_sub(modifier);
                if m <= self.budget.max_array_len {
                    if !ok.contains(&mk(m)) {
                        ok.push(mk(m));
                    }
                    bad.push(mk(m + 1));
                }
            }
        }
        FieldAlts { id: "payload".into(), ok, bad }
    }

    pub fn alts(&self, type_id: &str, depth: usize) -> Vec<FieldAlts> {
        let mut out = vec![];
        for (k, (decl, f)) in self.m.data_fields(type_id).into_iter().enumerate() {
            out.push(self.field_alts(decl, f, k as u64 + 1 + 3 * depth as u64, depth));
        }
        if self.m.decl(type_id).payload().is_some() {
            out.push(self.payload_alts(type_id));
        }
        out
    }

    fn values_depth(&self, type_id: &str, depth: usize) -> Values {
        if depth > 3 {
            return Values { ok: vec![], bad: vec![], capped: false };
        }
        let alts = self.alts(type_id, depth);
        if alts.iter().any(|a| a.ok.is_empty()) {
            return Values { ok: vec![], bad: vec![], capped: false };
        }
        let base: BTreeMap<String, Val> = alts.iter().map(|a| (a.id.clone(), a.ok[0].clone())).collect();
        let mut ok = vec![Val::Rec(base.clone())];
        let mut bad = vec![];
        let mut capped = false;
        let cap = if depth == 0 { self.budget.max_values } else { 24 };
        'outer: {
            for a in &alts {
                for x in a.ok.iter().skip(1) {
                    let mut r = base.clone();
                    r.insert(a.id.clone(), x.clone());
                    ok.push(Val::Rec(r));
                    if ok.len() >= cap {
                        capped = true;
                        break 'outer;
                    }
                }
            }
            if self.budget.pairs && depth == 0 {
                for (i, a) in alts.iter().enumerate() {
                    for b in alts.iter().skip(i + 1) {
                        for x in a.ok.iter().skip(1) {
                            for y in b.ok.iter().skip(1) {
                                let mut r = base.clone();
                                r.insert(a.id.clone(), x.clone());
                                r.insert(b.id.clone(), y.clone());
                                ok.push(Val::Rec(r));
                                if ok.len() >= cap {
                                    capped = true;
                                    break 'outer;
                                }
                            }
                        }
                    }
                }
            }
        }
        for a in &alts {
            for x in &a.bad {
                let mut r = base.clone();
                r.insert(a.id.clone(), x.clone());
                bad.push(Val::Rec(r));
            }
        }
        Values { ok, bad, capped }
    }

    /// The explored values of a type: `ok` are candidates built from in-range alternatives
    /// (the model decides whether each is encodable: shared flags can make one inconsistent),
    /// `bad` carry exactly one out-of-range deviation.
    pub fn values(&self, type_id: &str) -> Values {
        self.values_depth(type_id, 0)
    }

    /// All values of a type whose variable part is only scalars / enums of <= `max_bits` bits in
    /// total (the exhaustive quantifier of C03). None if the type does not qualify.
    pub fn all_values(&self, type_id: &str, max_bits: u64) -> Option<Vec<Val>> {
        let decl = self.m.decl(type_id);
        if decl.payload().is_some() {
            return None;
        }
        let mut doms: Vec<(String, Vec<u64>)> = vec![];
        let mut bits = 0u64;
        for (_, f) in self.m.data_fields(type_id) {
            if f.cond.is_some() {
                return None;
            }
            match &f.kind {
                FieldKind::Scalar { id, width } => {
                    bits += width;
                    if bits > max_bits {
                        return None;
                    }
                    doms.push((id.clone(), (0..=max_of_width(*width)).collect()));
                }
                FieldKind::Typedef { id, type_id } => match self.m.elem_ty(&Elem::Type(type_id.clone())) {
                    ElemTy::Enum(e, w) => {
                        bits += w;
                        if bits > max_bits {
                            return None;
                        }
                        doms.push((id.clone(), (0..=max_of_width(w)).filter(|x| enum_accepts(self.m.d, &e, *x)).collect()));
                    }
                    _ => return None,
                },
                _ => return None,
            }
        }
        if doms.is_empty() {
            return None;
        }
        let mut out = vec![BTreeMap::new()];
        for (id, dom) in doms {
            let mut next = Vec::with_capacity(out.len() * dom.len());
            for r in &out {
                for x in &dom {
                    let mut r2: BTreeMap<String, Val> = r.clone();
                    r2.insert(id.clone(), Val::Int(*x));
                    next.push(r2);
                }
            }
            out = next;
        }
        Some(out.into_iter().map(Val::Rec).collect())
    }
}

#[derive(Debug, Clone)]
pub struct Values {
    pub ok: Vec<Val>,
    pub bad: Vec<Val>,
    pub capped: bool,
}

// ---------------------------------------------------------------------- byte strings

pub const B_ALPHABET: [u8; 8] = [0x00, 0x01, 0x02, 0x03, 0x7f, 0x80, 0xfe, 0xff];

/// All strings of length <= `n` over `alphabet`, shortest first.
pub fn for_all_strings(alphabet: &[u8], n: usize, f: &mut dyn FnMut(&[u8])) {
    let mut buf: Vec<u8> = vec![];
    for len in 0..=n {
        buf.clear();
        buf.resize(len, alphabet[0]);
        let mut idx = vec![0usize; len];
        loop {
            for (i, k) in idx.iter().enumerate() {
                buf[i] = alphabet[*k];
            }
            f(&buf);
            // increment
            let mut p = len;
            loop {
                if p == 0 {
                    break;
                }
                p -= 1;
                idx[p] += 1;
                if idx[p] < alphabet.len() {
                    break;
                }
                idx[p] = 0;
                if p == 0 {
                    p = usize::MAX;
                    break;
                }
            }
            if len == 0 || p == usize::MAX {
                break;
            }
        }
    }
}

fn write_bits(bytes: &mut [u8], big: bool, shift: u64, width: u64, v: u64) {
    let n = bytes.len();
    let mut acc: u128 = 0;
    for (i, x) in bytes.iter().enumerate() {
        let s = if big { 8 * (n - 1 - i) } else { 8 * i };
        acc |= (*x as u128) << s;
    }
    let mask: u128 = if width >= 64 { u64::MAX as u128 } else { (1u128 << width) - 1 };
    acc = (acc & !(mask << shift)) | (((v as u128) & mask) << shift);
    for (i, x) in bytes.iter_mut().enumerate() {
        let s = if big { 8 * (n - 1 - i) } else { 8 * i };
        *x = (acc >> s) as u8;
    }
}

/// Mutants of one reference encoding: every prefix, one appended byte, every single-byte
/// substitution over the alphabet and neighbours, and every field-targeted overwrite.
pub fn for_all_mutants(e: &Enc, big: bool, f: &mut dyn FnMut(&[u8])) {
    let b = &e.bytes;
    // long encodings (large arrays): the prefixes and substitutions of the first 40 and last 8
    // bytes, plus a stride through the middle; the field-targeted mutants are always complete
    let long = b.len() > 64;
    let pick = |i: usize| !long || i < 40 || i + 8 >= b.len() || i % (b.len() / 16).max(1) == 0;
    for n in 0..b.len() {
        if pick(n) {
            f(&b[..n]);
        }
    }
    let mut buf = b.clone();
    for x in B_ALPHABET {
        buf.push(x);
        f(&buf);
        buf.pop();
    }
    for i in 0..b.len() {
        if !pick(i) {
            continue;
        }
        let orig = b[i];
        let mut subs: Vec<u8> = B_ALPHABET.to_vec();
        for s in [orig ^ 1, orig ^ 0x80, orig.wrapping_add(1), orig.wrapping_sub(1)] {
            if !subs.contains(&s) {
                subs.push(s);
            }
        }
        for s in subs {
            if s != orig {
                buf[i] = s;
                f(&buf);
            }
        }
        buf[i] = orig;
    }
    for c in &e.chunks {
        match &c.kind {
            ChunkKind::Group(members) => {
                for m in members {
                    let max = max_of_width(m.width);
                    let mut vals: Vec<u64> = vec![0, 1, max.saturating_sub(1), max];
                    for k in 0..m.width {
                        vals.push(1u64 << k);
                    }
                    vals.sort();
                    vals.dedup();
                    for v in vals {
                        if v > max {
                            continue;
                        }
                        let mut mb = b.clone();
                        write_bits(&mut mb[c.start..c.start + c.len], big, m.shift, m.width, v);
                        if mb != *b {
                            f(&mb);
                        }
                        // a size / count / element size larger than the data, with enough
                        // bytes appended for it to be satisfiable
                        if matches!(m.kind, BitKind::Size | BitKind::Count | BitKind::ElemSize) && v >= 1 && v <= 72 {
                            for extra in [v as usize, 8 * v as usize] {
                                if extra <= 160 {
                                    let mut ext = mb.clone();
                                    ext.extend((0..extra).map(|i| 0x11u8.wrapping_add(i as u8)));
                                    f(&ext);
                                }
                            }
                        }
                    }
                }
            }
            ChunkKind::Word => {
                let w = (c.len * 8) as u64;
                let max = max_of_width(w);
                for v in [0u64, 1, 2, max / 2, max.saturating_sub(1), max] {
                    let mut mb = b.clone();
                    write_bits(&mut mb[c.start..c.start + c.len], big, 0, w, v);
                    if mb != *b {
                        f(&mb);
                    }
                }
            }
            _ => {}
        }
    }
}

/// The byte strings of DESIGN.md 3.4 for one type, collected (used by the out-of-process
/// engines; the Rust engine streams the same enumeration).
pub fn input_set(m: &Model, ty: &str, big: bool, thorough: bool, max_values: usize) -> Vec<Vec<u8>> {
    input_set_b(m, ty, big, thorough, max_values, if thorough { 300 } else { 20 })
}

pub fn input_set_b(m: &Model, ty: &str, big: bool, thorough: bool, max_values: usize, max_array_len: usize) -> Vec<Vec<u8>> {
    let mut seen: std::collections::HashSet<Vec<u8>> = std::collections::HashSet::new();
    let mut out: Vec<Vec<u8>> = vec![];
    // thorough: 200 values whose encodings reach 2 KB have 25 000 single-fault mutants each;
    // the collected set stops at 20 000 strings (in enumeration order: alphabet strings, then
    // the values one after the other), the in-process Rust engine streams the full enumeration
    let cap = if thorough { 20_000 } else { usize::MAX };
    let mut push = |b: &[u8]| {
        if out.len() < cap && seen.insert(b.to_vec()) {
            out.push(b.to_vec());
        }
    };
    for_all_strings(&B_ALPHABET, if thorough { 4 } else { 3 }, &mut push);
    let full: Vec<u8> = (0..=255u8).collect();
    for_all_strings(&full, 1, &mut push);
    let vg = ValueGen { m, budget: if thorough { Budget { max_array_len, ..Budget::thorough() } } else { Budget { max_values: 120, pairs: true, nested_alts: 3, max_array_len } } };
    let vals = vg.values(ty);
    for v in vals.ok.iter().take(max_values) {
        if let Ok(e) = m.encode(ty, v) {
            if e.bytes.len() <= 2048 {
                push(&e.bytes);
                for_all_mutants(&e, big, &mut push);
            }
        }
    }
    // the largest values the size / count fields can express (arrays of 255 elements, payloads
    // of 255 octets, ...): their encodings and their prefixes cut at every 16th octet, without
    // the per-octet mutants (which the in-process Rust engine enumerates)
    if max_array_len < 300 {
        let vg = ValueGen { m, budget: Budget { max_values: 120, pairs: false, nested_alts: 2, max_array_len: 300 } };
        for v in vg.values(ty).ok.iter() {
            if let Ok(e) = m.encode(ty, v) {
                if e.bytes.len() > 64 && e.bytes.len() <= 4096 {
                    push(&e.bytes);
                    let mut k = 16;
                    while k < e.bytes.len() {
                        push(&e.bytes[..k]);
                        k += 16;
                    }
                    push(&e.bytes[..e.bytes.len() - 1]);
                }
            }
        }
    }
    out
}
