//! Violation reporting, replay files and the known-findings file.

use crate::evidence::Evidence;
use serde_json::{json, Value};
use std::collections::BTreeMap;

pub const VERIF_DIR: &str = "/verif";

#[derive(Debug, Clone, serde::Deserialize)]
pub struct Known {
    pub id: String,
    /// properties this finding may be observed through
    pub properties: Vec<String>,
    /// every string must occur in the violation signature
    pub sig_contains: Vec<String>,
    #[serde(default)]
    pub sig_excludes: Vec<String>,
    /// "open" findings are suppressed (KNOWN-FINDING line); "fixed" ones suppress nothing
    pub status: String,
    pub what: String,
}

#[derive(Debug, Clone)]
pub struct Violation {
    pub property: String,
    /// stable signature: failure kind, construct classes, normalised message
    pub sig: String,
    /// everything needed to replay: source text, type, operation, input, expected, observed
    pub detail: Value,
}

pub struct Reporter {
    pub property: String,
    known: Vec<Known>,
    pub by_sig: BTreeMap<String, (usize, Violation, Option<String>)>,
    pub max_replays: usize,
    /// replay / single-source mode: print the verdict lines, touch no file
    pub dry: bool,
}

pub fn load_known() -> Vec<Known> {
    let path = format!("{VERIF_DIR}/known_findings.json");
    match std::fs::read_to_string(&path) {
        Ok(s) => {
            let v: Value = serde_json::from_str(&s).expect("known_findings.json is not JSON");
            serde_json::from_value(v["findings"].clone()).expect("known_findings.json: bad findings list")
        }
        Err(_) => vec![],
    }
}

impl Reporter {
    pub fn new(property: &str) -> Reporter {
        Reporter { property: property.into(), known: load_known(), by_sig: BTreeMap::new(), max_replays: 25, dry: false }
    }

    fn match_known(&self, v: &Violation) -> Option<String> {
        for k in &self.known {
            if k.status != "open" {
                continue;
            }
            if !k.properties.iter().any(|p| p == &v.property) {
                continue;
            }
            if k.sig_contains.iter().all(|s| v.sig.contains(s.as_str()))
                && !k.sig_excludes.iter().any(|s| v.sig.contains(s.as_str()))
            {
                return Some(k.id.clone());
            }
        }
        None
    }

    pub fn report(&mut self, v: Violation) {
        if let Some(e) = self.by_sig.get_mut(&v.sig) {
            e.0 += 1;
            return;
        }
        let k = self.match_known(&v);
        self.by_sig.insert(v.sig.clone(), (1, v, k));
    }

    pub fn merge(&mut self, other: Reporter) {
        for (sig, (n, v, k)) in other.by_sig {
            match self.by_sig.get_mut(&sig) {
                Some(e) => e.0 += n,
                None => {
                    self.by_sig.insert(sig, (n, v, k));
                }
            }
        }
    }

    /// Print the verdict lines, write replay files, fill the evidence. Returns the exit code.
    pub fn finish(&self, ev: &mut Evidence) -> i32 {
        let mut new = 0usize;
        let mut known_hits: BTreeMap<String, usize> = BTreeMap::new();
        let mut sigs = vec![];
        if self.dry {
            for (sig, (n, v, k)) in &self.by_sig {
                match k {
                    Some(id) => println!("KNOWN-FINDING: property={} [{}] ({} occurrences) {}", v.property, id, n, sig),
                    None => {
                        new += 1;
                        println!("VIOLATION property={} replay=(replayed) occurrences={}", v.property, n);
                        println!("  signature: {sig}");
                        println!("  detail: {}", serde_json::to_string(&v.detail).unwrap_or_default().chars().take(1200).collect::<String>());
                    }
                }
            }
            ev.violations = new;
            return if new > 0 { 1 } else { 0 };
        }
        std::fs::create_dir_all(format!("{VERIF_DIR}/replays")).ok();
        // replay files of earlier runs of this property are stale once it has been re-decided
        if let Ok(rd) = std::fs::read_dir(format!("{VERIF_DIR}/replays")) {
            for e in rd.flatten() {
                let n = e.file_name().to_string_lossy().to_string();
                if n.starts_with(&format!("{}-", self.property)) && n.ends_with(".json") {
                    let _ = std::fs::remove_file(e.path());
                }
            }
        }
        for (sig, (n, v, k)) in &self.by_sig {
            match k {
                Some(id) => {
                    *known_hits.entry(id.clone()).or_default() += n;
                }
                None => {
                    new += 1;
                    let h = crate::ir::fnv1a(sig.as_bytes());
                    let path = format!("{VERIF_DIR}/replays/{}-{:016x}.json", v.property, h);
                    if new <= self.max_replays {
                        let body = json!({"property": v.property, "signature": sig, "occurrences": n, "detail": v.detail});
                        std::fs::write(&path, serde_json::to_string_pretty(&body).unwrap()).ok();
                        println!("VIOLATION property={} replay={}", v.property, path);
                        println!("  signature: {sig}");
                    }
                    sigs.push(json!({"sig": sig, "occurrences": n}));
                }
            }
        }
        if new > self.max_replays {
            println!("({} further distinct violation signatures not written out)", new - self.max_replays);
        }
        let known = self.known.clone();
        for (id, n) in &known_hits {
            let what = known.iter().find(|k| &k.id == id).map(|k| k.what.clone()).unwrap_or_default();
            println!("KNOWN-FINDING: property={} {} [{}] ({} occurrences)", self.property, what, id, n);
        }
        ev.violations = new;
        ev.known = known_hits.len();
        ev.set("violation_signatures", Value::Array(sigs));
        ev.set("known_findings_hit", json!(known_hits));
        if new > 0 {
            1
        } else {
            0
        }
    }
}
