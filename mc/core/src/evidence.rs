//! Evidence and replay writers (schema: /root/.vp/EVIDENCE.schema.json).

use serde_json::{json, Value};
use std::time::Instant;

pub struct Evidence {
    pub property: String,
    pub tier: String,
    pub seed: i64,
    pub level: String,
    pub start: Instant,
    pub coverage: serde_json::Map<String, Value>,
    pub assumptions: Vec<String>,
    pub violations: usize,
    pub known: usize,
}

impl Evidence {
    pub fn new(property: &str, tier: &str) -> Evidence {
        let seed = std::env::var("VERIF_SEED").ok().and_then(|s| s.parse().ok()).unwrap_or(0);
        Evidence {
            property: property.into(),
            tier: tier.into(),
            seed,
            level: "model_checking".into(),
            start: Instant::now(),
            coverage: serde_json::Map::new(),
            assumptions: vec![],
            violations: 0,
            known: 0,
        }
    }
    pub fn set(&mut self, k: &str, v: Value) {
        self.coverage.insert(k.into(), v);
    }
    pub fn to_json(&self) -> Value {
        json!({
            "property_id": self.property,
            "tier": self.tier,
            "seed": self.seed,
            "level": self.level,
            "coverage": Value::Object(self.coverage.clone()),
            "assumptions": self.assumptions,
            "wall_s": (self.start.elapsed().as_millis() as f64) / 1000.0,
            "violations": self.violations,
            "known_findings_matched": self.known,
        })
    }
    pub fn write(&self, dir: &str) {
        std::fs::create_dir_all(dir).ok();
        let path = format!("{dir}/{}.json", self.property);
        std::fs::write(&path, serde_json::to_string_pretty(&self.to_json()).unwrap()).expect("write evidence");
    }
}
