//! Size classification model (property C16), on the group-inlined description.

use crate::ir::*;

#[derive(Debug, Clone, Copy, PartialEq, Eq, Hash, PartialOrd, Ord, serde::Serialize, serde::Deserialize)]
pub enum Size {
    /// constant size in bits
    Static(u64),
    /// delimited at run time (size field, count field, condition flag, custom field)
    Dynamic,
    /// nothing delimits it
    Unknown,
}

impl Size {
    pub fn add(self, o: Size) -> Size {
        match (self, o) {
            (Size::Unknown, _) | (_, Size::Unknown) => Size::Unknown,
            (Size::Dynamic, _) | (_, Size::Dynamic) => Size::Dynamic,
            (Size::Static(a), Size::Static(b)) => Size::Static(a + b),
        }
    }
    pub fn times(self, n: u64) -> Size {
        match self {
            Size::Static(a) => Size::Static(a * n),
            o => o,
        }
    }
}

/// Size of one field taken in isolation (a padded array is *not* replaced by its padding here).
pub fn field_size(d: &Desc, decl: &Decl, f: &Field) -> Size {
    field_size_g(d, decl, f, 0)
}

fn field_size_g(d: &Desc, decl: &Decl, f: &Field, depth: usize) -> Size {
    if depth > 12 {
        return Size::Unknown;
    }
    if f.cond.is_some() {
        return Size::Dynamic;
    }
    match &f.kind {
        FieldKind::Checksum { .. } | FieldKind::Padding { .. } => Size::Static(0),
        FieldKind::Size { width, .. }
        | FieldKind::Count { width, .. }
        | FieldKind::ElementSize { width, .. }
        | FieldKind::FixedScalar { width, .. }
        | FieldKind::Reserved { width }
        | FieldKind::Scalar { width, .. } => Size::Static(*width),
        FieldKind::Body | FieldKind::Payload { .. } => {
            let has = decl.fields().iter().any(|g| {
                matches!(&g.kind, FieldKind::Size { field_id, .. } if field_id == "_payload_" || field_id == "_body_")
            });
            if has {
                Size::Dynamic
            } else {
                Size::Unknown
            }
        }
        FieldKind::Typedef { type_id, .. } | FieldKind::FixedEnum { enum_id: type_id, .. } => total_size_g(d, type_id, depth + 1),
        FieldKind::Group { group_id, .. } => total_size_g(d, group_id, depth + 1),
        FieldKind::Array { id, elem, shape } => match shape {
            Shape::Static(n) => match elem {
                Elem::Width(w) => Size::Static(n * w),
                Elem::Type(t) => total_size_g(d, t, depth + 1).times(*n),
            },
            _ => {
                let has = decl.fields().iter().any(|g| match &g.kind {
                    FieldKind::Size { field_id, .. } | FieldKind::Count { field_id, .. } => field_id == id,
                    _ => false,
                });
                if has {
                    Size::Dynamic
                } else {
                    Size::Unknown
                }
            }
        },
    }
}

/// Size of the fields a declaration declares itself, payload excluded, paddings at declared size.
pub fn decl_size(d: &Desc, id: &str) -> Size {
    decl_size_depth(d, id, 0)
}

fn total_size_g(d: &Desc, id: &str, depth: usize) -> Size {
    if depth > 12 {
        return Size::Unknown;
    }
    let mut s = decl_size_depth(d, id, depth);
    for a in d.ancestry(id).iter().skip(1) {
        s = s.add(decl_size_depth(d, &a.id, depth));
    }
    let pl = match d.get(id) {
        Some(decl) => match decl.payload() {
            Some(p) => field_size_g(d, decl, p, depth),
            None => Size::Static(0),
        },
        None => Size::Static(0),
    };
    s.add(pl)
}

fn decl_size_depth(d: &Desc, id: &str, depth: usize) -> Size {
    let decl = match d.get(id) {
        Some(x) => x,
        None => return Size::Unknown,
    };
    if depth > 12 {
        return Size::Unknown;
    }
    match &decl.kind {
        DeclKind::Enum { width, .. } | DeclKind::Checksum { width, .. } | DeclKind::Custom { width: Some(width), .. } => {
            Size::Static(*width)
        }
        DeclKind::Custom { width: None, .. } => Size::Dynamic,
        _ => {
            let fields = decl.fields();
            let mut s = Size::Static(0);
            for (i, f) in fields.iter().enumerate() {
                if f.is_payload() {
                    continue;
                }
                let padded = match fields.get(i + 1).map(|n| &n.kind) {
                    Some(FieldKind::Padding { size }) => Some(Size::Static(size * 8)),
                    _ => None,
                };
                s = s.add(padded.unwrap_or_else(|| field_size_g(d, decl, f, depth)));
            }
            s
        }
    }
}

pub fn payload_size(d: &Desc, id: &str) -> Size {
    match d.get(id) {
        Some(decl) => match decl.payload() {
            Some(p) => field_size(d, decl, p),
            None => Size::Static(0),
        },
        None => Size::Static(0),
    }
}

/// Size contributed by the ancestors (their own fields, their payloads being replaced).
pub fn parent_size(d: &Desc, id: &str) -> Size {
    let chain = d.ancestry(id);
    let mut s = Size::Static(0);
    for a in chain.iter().skip(1) {
        s = s.add(decl_size(d, &a.id));
    }
    s
}

pub fn total_size(d: &Desc, id: &str) -> Size {
    decl_size(d, id).add(parent_size(d, id)).add(payload_size(d, id))
}
