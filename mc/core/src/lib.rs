//! pdlmc-core: description IR, renderer, reference model, enumerators.
pub mod classes;
pub mod evidence;
pub mod graph;
pub mod ir;
pub mod model;
pub mod recognizer;
pub mod render;
pub mod report;
pub mod rules;
pub mod select;
pub mod sizes;
pub mod support;
pub mod values;
