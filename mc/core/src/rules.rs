//! Well-formedness model: one predicate per rule of doc/reference.md (Appendix A of DESIGN.md).
//! Written from the reference, not from the analyzer.

use crate::ir::*;
use std::collections::{BTreeMap, BTreeSet, HashMap, HashSet};

/// A violated rule. `code` is the analyzer error code expected for it (0 = the reference states
/// the rule but the implementation assigns no code: the oracle then only demands rejection).
#[derive(Debug, Clone, PartialEq, Eq, Hash, PartialOrd, Ord, serde::Serialize, serde::Deserialize)]
pub struct Viol {
    pub code: u16,
    /// stable class of the violation (used in signatures): "E<code>" or "E<code>/<variant>"
    pub class: String,
    pub what: String,
}

fn v(code: u16, what: impl Into<String>) -> Viol {
    Viol { code, class: format!("E{code}"), what: what.into() }
}

fn vc(code: u16, class: &str, what: impl Into<String>) -> Viol {
    Viol { code, class: class.into(), what: what.into() }
}

/// Expand group fields (reference: "A group field inlines all the fields defined in the
/// referenced group"; constrained scalar / enum typedef fields become fixed fields).
/// Returns None if some group reference cannot be resolved or groups are recursive.
pub fn inline_groups(d: &Desc) -> Option<Desc> {
    fn expand(
        d: &Desc,
        fields: &[Field],
        cs: &BTreeMap<String, CVal>,
        depth: usize,
        out: &mut Vec<Field>,
    ) -> bool {
        if depth > 8 {
            return false;
        }
        for f in fields {
            match &f.kind {
                FieldKind::Group { group_id, constraints } => {
                    let g = match d.get(group_id) {
                        Some(g @ Decl { kind: DeclKind::Group { .. }, .. }) => g,
                        _ => return false,
                    };
                    let mut cs2 = cs.clone();
                    for c in constraints {
                        cs2.insert(c.id.clone(), c.val.clone());
                    }
                    if !expand(d, g.fields(), &cs2, depth + 1, out) {
                        return false;
                    }
                }
                FieldKind::Scalar { id, width } if cs.contains_key(id) => match &cs[id] {
                    CVal::Int(val) => out.push(Field {
                        kind: FieldKind::FixedScalar { width: *width, value: *val },
                        cond: f.cond.clone(),
                    }),
                    _ => return false,
                },
                FieldKind::Typedef { id, type_id } if cs.contains_key(id) => match &cs[id] {
                    CVal::Tag(t) => out.push(Field {
                        kind: FieldKind::FixedEnum { enum_id: type_id.clone(), tag_id: t.clone() },
                        cond: f.cond.clone(),
                    }),
                    _ => return false,
                },
                _ => out.push(f.clone()),
            }
        }
        true
    }
    let mut decls = vec![];
    for decl in &d.decls {
        match &decl.kind {
            DeclKind::Group { .. } => {}
            DeclKind::Packet { parent, constraints, fields } => {
                let mut out = vec![];
                if !expand(d, fields, &BTreeMap::new(), 0, &mut out) {
                    return None;
                }
                decls.push(Decl {
                    id: decl.id.clone(),
                    kind: DeclKind::Packet {
                        parent: parent.clone(),
                        constraints: constraints.clone(),
                        fields: out,
                    },
                });
            }
            DeclKind::Struct { parent, constraints, fields } => {
                let mut out = vec![];
                if !expand(d, fields, &BTreeMap::new(), 0, &mut out) {
                    return None;
                }
                decls.push(Decl {
                    id: decl.id.clone(),
                    kind: DeclKind::Struct {
                        parent: parent.clone(),
                        constraints: constraints.clone(),
                        fields: out,
                    },
                });
            }
            _ => decls.push(decl.clone()),
        }
    }
    Some(Desc { endian: d.endian, decls })
}

pub fn is_bitfield(d: &Desc, f: &Field) -> bool {
    match &f.kind {
        FieldKind::Size { .. }
        | FieldKind::Count { .. }
        | FieldKind::ElementSize { .. }
        | FieldKind::FixedScalar { .. }
        | FieldKind::FixedEnum { .. }
        | FieldKind::Reserved { .. }
        | FieldKind::Scalar { .. } => true,
        FieldKind::Typedef { type_id, .. } => {
            matches!(d.get(type_id), Some(Decl { kind: DeclKind::Enum { .. }, .. }))
        }
        _ => false,
    }
}

pub fn enum_width(d: &Desc, id: &str) -> Option<u64> {
    match d.get(id) {
        Some(Decl { kind: DeclKind::Enum { width, .. }, .. }) => Some(*width),
        _ => None,
    }
}

/// Bit width of a bit-field (None if not a bit-field or unresolved).
pub fn bitfield_width(d: &Desc, f: &Field) -> Option<u64> {
    match &f.kind {
        FieldKind::Size { width, .. }
        | FieldKind::Count { width, .. }
        | FieldKind::ElementSize { width, .. }
        | FieldKind::FixedScalar { width, .. }
        | FieldKind::Reserved { width }
        | FieldKind::Scalar { width, .. } => Some(*width),
        FieldKind::FixedEnum { enum_id, .. } => enum_width(d, enum_id),
        FieldKind::Typedef { type_id, .. } => enum_width(d, type_id),
        _ => None,
    }
}

fn fits(value: u64, width: u64) -> bool {
    width >= 64 || value < (1u64 << width)
}

/// The set of violated rules.
pub fn rules(d: &Desc) -> BTreeSet<Viol> {
    let mut out = BTreeSet::new();

    // ---------------- E1: duplicate declaration identifiers
    let mut seen = HashSet::new();
    for decl in &d.decls {
        if !seen.insert(decl.id.as_str()) {
            out.insert(v(1, format!("duplicate declaration `{}`", decl.id)));
        }
    }
    let dup_decls = !out.is_empty();
    // Name resolution below uses the first declaration of a name; with duplicates present the
    // description is ill-formed anyway and E1 is what must be reported.

    // ---------------- E3..E8: identifiers
    for decl in &d.decls {
        for f in decl.fields() {
            match &f.kind {
                FieldKind::Group { group_id, .. } => match d.get(group_id) {
                    None => {
                        out.insert(v(3, format!("undeclared group `{group_id}` in `{}`", decl.id)));
                    }
                    Some(g) if !matches!(g.kind, DeclKind::Group { .. }) => {
                        out.insert(v(4, format!("`{group_id}` is not a group (in `{}`)", decl.id)));
                    }
                    _ => {}
                },
                FieldKind::Typedef { type_id, .. } | FieldKind::Array { elem: Elem::Type(type_id), .. } => {
                    match d.get(type_id) {
                        None => {
                            out.insert(v(5, format!("undeclared type `{type_id}` in `{}`", decl.id)));
                        }
                        Some(t) if matches!(t.kind, DeclKind::Group { .. }) => {
                            out.insert(vc(6, "E6/group", format!("group `{type_id}` used as a type in `{}`", decl.id)));
                        }
                        Some(t) if matches!(t.kind, DeclKind::Packet { .. }) => {
                            out.insert(v(6, format!("`{type_id}` ({}) used as a type in `{}`", t.kind_name(), decl.id)));
                        }
                        _ => {}
                    }
                }
                _ => {}
            }
        }
        if let Some(p) = decl.parent() {
            match d.get(p) {
                None => {
                    out.insert(v(7, format!("undeclared parent `{p}` of `{}`", decl.id)));
                }
                Some(pd) => {
                    let ok = (decl.is_packet() && pd.is_packet()) || (decl.is_struct() && pd.is_struct());
                    if !ok {
                        out.insert(v(8, format!("invalid parent `{p}` of `{}`", decl.id)));
                    }
                }
            }
        }
    }

    // ---------------- E2: recursion
    {
        // edges as the reference describes containment: parent, typedef, static array, group use
        let mut edges: HashMap<&str, Vec<&str>> = HashMap::new();
        for decl in &d.decls {
            let e = edges.entry(decl.id.as_str()).or_default();
            for f in decl.fields() {
                match &f.kind {
                    FieldKind::Group { group_id, .. } => {
                        if matches!(d.get(group_id), Some(Decl { kind: DeclKind::Group { .. }, .. })) {
                            e.push(group_id);
                        }
                    }
                    FieldKind::Typedef { type_id, .. }
                    | FieldKind::Array { elem: Elem::Type(type_id), shape: Shape::Static(_), .. } => {
                        if let Some(t) = d.get(type_id) {
                            if !t.is_packet() {
                                e.push(type_id);
                            }
                        }
                    }
                    _ => {}
                }
            }
            if let Some(p) = decl.parent() {
                if let Some(pd) = d.get(p) {
                    if (decl.is_packet() && pd.is_packet()) || (decl.is_struct() && pd.is_struct()) {
                        e.push(p);
                    }
                }
            }
        }
        // cycle detection
        fn dfs<'a>(
            n: &'a str,
            edges: &HashMap<&'a str, Vec<&'a str>>,
            state: &mut HashMap<&'a str, u8>,
        ) -> bool {
            match state.get(n) {
                Some(1) => return true,
                Some(2) => return false,
                _ => {}
            }
            state.insert(n, 1);
            let mut cyc = false;
            if let Some(es) = edges.get(n) {
                for m in es {
                    if dfs(m, edges, state) {
                        cyc = true;
                    }
                }
            }
            state.insert(n, 2);
            cyc
        }
        let mut state = HashMap::new();
        for decl in &d.decls {
            if dfs(decl.id.as_str(), &edges, &mut state) {
                out.insert(v(2, format!("recursive declaration through `{}`", decl.id)));
            }
        }
    }

    // ---------------- enums: E12 E13 E14 E40 E41 E43 E44
    for decl in &d.decls {
        if let DeclKind::Enum { width, tags } = &decl.kind {
            let max = max_of_width(*width);
            let mut ids = HashSet::new();
            let mut vals = HashSet::new();
            let mut others = 0;
            let ranges: Vec<(u64, u64)> = tags
                .iter()
                .filter_map(|t| match t {
                    Tag::Range { lo, hi, .. } => Some((*lo.min(hi), *lo.max(hi))),
                    _ => None,
                })
                .collect();
            for t in tags {
                if !ids.insert(t.id().to_string()) {
                    out.insert(v(12, format!("duplicate tag id `{}` in `{}`", t.id(), decl.id)));
                }
                match t {
                    Tag::Value { value, .. } => {
                        if !vals.insert(*value) {
                            out.insert(v(13, format!("duplicate tag value {value} in `{}`", decl.id)));
                        }
                        if *value > max {
                            out.insert(v(14, format!("tag value {value} exceeds {max} in `{}`", decl.id)));
                        }
                        if ranges.iter().any(|(lo, hi)| lo <= value && value <= hi) {
                            out.insert(v(43, format!("tag value {value} inside a range in `{}`", decl.id)));
                        }
                    }
                    Tag::Range { lo, hi, tags: sub, .. } => {
                        if *lo > max || *hi > max {
                            out.insert(v(40, format!("range {lo}..{hi} exceeds {max} in `{}`", decl.id)));
                        }
                        if lo >= hi {
                            out.insert(v(40, format!("range {lo}..{hi} not increasing in `{}`", decl.id)));
                        }
                        let (l, h) = (*lo.min(hi), *lo.max(hi));
                        for (sid, sv) in sub {
                            if !ids.insert(sid.clone()) {
                                out.insert(v(12, format!("duplicate tag id `{sid}` in `{}`", decl.id)));
                            }
                            if !vals.insert(*sv) {
                                out.insert(v(13, format!("duplicate tag value {sv} in `{}`", decl.id)));
                            }
                            if *sv < l || *sv > h {
                                out.insert(v(14, format!("nested tag value {sv} outside {l}..{h} in `{}`", decl.id)));
                            }
                        }
                    }
                    Tag::Other { .. } => {
                        others += 1;
                        if others == 2 {
                            out.insert(v(44, format!("two default tags in `{}`", decl.id)));
                        }
                    }
                }
            }
            for (i, a) in ranges.iter().enumerate() {
                for b in ranges.iter().skip(i + 1) {
                    if !(a.1 < b.0 || b.1 < a.0) {
                        out.insert(v(41, format!("overlapping ranges in `{}`", decl.id)));
                    }
                }
            }
        }
    }

    // ---------------- per-declaration field rules
    for decl in &d.decls {
        let fields = decl.fields();
        if fields.is_empty() && !decl.is_pkt_or_struct() {
            continue;
        }

        // E11 (local): duplicate field identifiers inside one declaration
        let mut ids = HashSet::new();
        for f in fields {
            if let Some(id) = f.id() {
                if !ids.insert(id) {
                    out.insert(v(11, format!("duplicate field `{id}` in `{}`", decl.id)));
                }
            }
        }

        // size / count / elementsize: E23..E31, E38
        let mut size_for: HashMap<&str, &Field> = HashMap::new();
        let mut esize_for: HashSet<&str> = HashSet::new();
        for f in fields {
            match &f.kind {
                FieldKind::Size { field_id, .. } | FieldKind::Count { field_id, .. } => {
                    let is_size = matches!(f.kind, FieldKind::Size { .. });
                    if size_for.insert(field_id, f).is_some() {
                        out.insert(v(if is_size { 23 } else { 26 }, format!("two size/count fields for `{field_id}` in `{}`", decl.id)));
                    }
                    let target = fields.iter().find(|t| match &t.kind {
                        FieldKind::Payload { .. } => is_size && field_id == "_payload_",
                        FieldKind::Body => is_size && field_id == "_body_",
                        _ => t.id() == Some(field_id),
                    });
                    match target {
                        None => {
                            out.insert(v(if is_size { 24 } else { 27 }, format!("undeclared size/count target `{field_id}` in `{}`", decl.id)));
                        }
                        Some(t) => match &t.kind {
                            FieldKind::Payload { .. } | FieldKind::Body => {}
                            FieldKind::Array { shape, .. } => {
                                if matches!(shape, Shape::Static(_)) {
                                    out.insert(v(38, format!("static array `{field_id}` has a size/count field in `{}`", decl.id)));
                                }
                            }
                            _ => {
                                out.insert(v(if is_size { 25 } else { 28 }, format!("size/count target `{field_id}` is not an array in `{}`", decl.id)));
                            }
                        },
                    }
                }
                FieldKind::ElementSize { field_id, .. } => {
                    if !esize_for.insert(field_id) {
                        out.insert(v(29, format!("two elementsize fields for `{field_id}` in `{}`", decl.id)));
                    }
                    match fields.iter().find(|t| t.id() == Some(field_id)) {
                        None => {
                            out.insert(v(30, format!("undeclared elementsize target `{field_id}` in `{}`", decl.id)));
                        }
                        Some(Field { kind: FieldKind::Array { .. }, .. }) => {}
                        Some(_) => {
                            out.insert(v(31, format!("elementsize target `{field_id}` is not an array in `{}`", decl.id)));
                        }
                    }
                }
                _ => {}
            }
        }

        // fixed fields: E32..E35
        for f in fields {
            match &f.kind {
                FieldKind::FixedScalar { width, value } => {
                    if !fits(*value, *width) {
                        out.insert(v(32, format!("fixed value {value} does not fit {width} bits in `{}`", decl.id)));
                    }
                }
                FieldKind::FixedEnum { enum_id, tag_id } => match d.get(enum_id) {
                    None => {
                        out.insert(v(33, format!("undeclared enum `{enum_id}` in fixed field of `{}`", decl.id)));
                    }
                    Some(Decl { kind: DeclKind::Enum { tags, .. }, .. }) => {
                        let known = tags.iter().any(|t| {
                            t.id() == tag_id
                                || matches!(t, Tag::Range { tags, .. } if tags.iter().any(|(s, _)| s == tag_id))
                        });
                        // the reference only says "an enum tag"; nested tags are tags too but the
                        // implementation only looks at top-level ones: nested tags are not generated.
                        if !known {
                            out.insert(v(34, format!("undeclared tag `{tag_id}` in fixed field of `{}`", decl.id)));
                        }
                    }
                    Some(_) => {
                        out.insert(v(35, format!("`{enum_id}` is not an enum (fixed field of `{}`)", decl.id)));
                    }
                },
                _ => {}
            }
        }

        // payload: E36
        if fields.iter().filter(|f| f.is_payload()).count() > 1 {
            out.insert(v(36, format!("two payload/body fields in `{}`", decl.id)));
        }
        // E37: a child declares fields but this declaration has no payload
        if decl.is_pkt_or_struct()
            && decl.payload().is_none()
            && d.children(&decl.id).any(|c| !c.fields().is_empty())
        {
            out.insert(v(37, format!("`{}` has a child with fields but no payload", decl.id)));
        }

        // padding: E39
        let mut prev_array = false;
        for f in fields {
            match &f.kind {
                FieldKind::Padding { .. } => {
                    if !prev_array {
                        out.insert(v(39, format!("padding does not follow an array in `{}`", decl.id)));
                    }
                    prev_array = false;
                }
                FieldKind::Array { .. } => prev_array = true,
                _ => prev_array = false,
            }
        }

        // optional fields: E45..E49
        let mut earlier: HashMap<&str, &Field> = HashMap::new();
        for f in fields {
            if let Some(c) = &f.cond {
                if !matches!(f.kind, FieldKind::Scalar { .. } | FieldKind::Typedef { .. }) {
                    out.insert(v(45, format!("`if` on a non scalar/typedef field in `{}`", decl.id)));
                }
                match earlier.get(c.id.as_str()) {
                    None => {
                        out.insert(v(46, format!("condition `{}` names no earlier field in `{}`", c.id, decl.id)));
                    }
                    Some(Field { cond: Some(_), .. }) => {
                        out.insert(v(49, format!("condition `{}` is itself optional in `{}`", c.id, decl.id)));
                    }
                    Some(Field { kind: FieldKind::Scalar { width: 1, .. }, .. }) => {}
                    Some(_) => {
                        out.insert(v(47, format!("condition `{}` is not a 1-bit scalar in `{}`", c.id, decl.id)));
                    }
                }
                match &c.val {
                    CVal::Int(0) | CVal::Int(1) => {}
                    _ => {
                        out.insert(v(48, format!("condition value not 0/1 in `{}`", decl.id)));
                    }
                }
            }
            if let Some(id) = f.id() {
                earlier.insert(id, f);
            }
        }

        // E52: array element width
        for f in fields {
            if let FieldKind::Array { id, elem, .. } = &f.kind {
                match elem {
                    Elem::Width(w) => {
                        if w % 8 != 0 {
                            out.insert(v(52, format!("array `{id}` element width {w} in `{}`", decl.id)));
                        }
                    }
                    Elem::Type(t) => {
                        if let Some(w) = enum_width(d, t) {
                            if w % 8 != 0 {
                                out.insert(vc(52, "E52/enum-elem", format!("array `{id}` enum element width {w} in `{}`", decl.id)));
                            }
                        }
                    }
                }
            }
        }
    }

    // ---------------- group constraints (checked against the group's own fields)
    for decl in &d.decls {
        for f in decl.fields() {
            if let FieldKind::Group { group_id, constraints } = &f.kind {
                if let Some(g @ Decl { kind: DeclKind::Group { .. }, .. }) = d.get(group_id) {
                    let scope: Vec<&Field> = g.fields().iter().collect();
                    check_constraints(d, constraints, &scope, &HashSet::new(), &decl.id, &mut out);
                }
            }
        }
    }

    // ---------------- rules that need groups inlined: E11 (scope), constraints, offsets, sizes
    if let (false, Some(inl)) = (dup_decls, inline_groups(d)) {
        // E11 through groups and inheritance ("scope extends to derived declarations / users of the group")
        for decl in &inl.decls {
            if !decl.is_pkt_or_struct() {
                continue;
            }
            let chain = inl.ancestry(&decl.id);
            let mut ids: HashMap<&str, &str> = HashMap::new();
            for a in chain.iter().rev() {
                for f in a.fields() {
                    if let Some(id) = f.id() {
                        if let Some(prev) = ids.insert(id, a.id.as_str()) {
                            // same-declaration duplicates before inlining are already reported
                            let local_dup_before_inlining = d
                                .get(&a.id)
                                .map(|orig| orig.fields().iter().filter(|x| x.id() == Some(id)).count() > 1)
                                .unwrap_or(false);
                            if !(prev == a.id && local_dup_before_inlining) {
                                out.insert(vc(11, "E11/scope", format!("field `{id}` declared twice in the scope of `{}` ({} / {})", decl.id, prev, a.id)));
                            }
                        }
                    }
                }
            }
        }

        // declaration constraints: E15..E22, E42
        for decl in &inl.decls {
            if let Some(p) = decl.parent() {
                let kinds_ok = inl
                    .get(p)
                    .map(|pd| (decl.is_packet() && pd.is_packet()) || (decl.is_struct() && pd.is_struct()))
                    .unwrap_or(false);
                if !kinds_ok {
                    continue;
                }
                let chain = inl.ancestry(p);
                let scope: Vec<&Field> = chain.iter().flat_map(|a| a.fields().iter()).collect();
                let inherited: HashSet<String> =
                    chain.iter().flat_map(|a| a.constraints().iter().map(|c| c.id.clone())).collect();
                check_constraints(&inl, decl.constraints(), &scope, &inherited, &decl.id, &mut out);
            }
        }

        // E51 / E53 and the optional-field layout rules
        for decl in &inl.decls {
            if !decl.is_pkt_or_struct() {
                continue;
            }
            let mut off: u64 = 0;
            for f in decl.fields() {
                if f.cond.is_some() {
                    // reference: an optional field must start on a byte boundary and be a whole
                    // number of bytes
                    if off % 8 != 0 {
                        out.insert(vc(0, "OPT/align", format!("optional field not on an octet boundary in `{}`", decl.id)));
                    }
                    if let Some(w) = bitfield_width(&inl, f) {
                        if w % 8 != 0 {
                            out.insert(vc(0, "OPT/size", format!("optional field of {w} bits in `{}`", decl.id)));
                        }
                    }
                    off = 0;
                    continue;
                }
                if is_bitfield(&inl, f) {
                    off = (off + bitfield_width(&inl, f).unwrap_or(0)) % 8;
                } else {
                    match f.kind {
                        FieldKind::Group { .. } => {}
                        _ => {
                            let unresolved_type = match &f.kind {
                                FieldKind::Typedef { type_id, .. } => inl.get(type_id).is_none(),
                                _ => false,
                            };
                            if off % 8 != 0 && !unresolved_type {
                                out.insert(v(51, format!("non bit-field at bit offset {off} in `{}`", decl.id)));
                            }
                            // a statically sized part that is itself not a whole number of octets
                            // (an ill-formed struct, an array of such) shifts what follows
                            off = match crate::sizes::field_size(&inl, decl, f) {
                                crate::sizes::Size::Static(n) => n % 8,
                                _ => 0,
                            };
                        }
                    }
                }
            }
            if off % 8 != 0 {
                out.insert(v(53, format!("`{}` is not a whole number of octets", decl.id)));
            }
        }
    }

    // groups themselves: the static part of a group need not be byte aligned (it is a fragment).
    out
}

fn check_constraints(
    d: &Desc,
    cs: &[Constraint],
    scope: &[&Field],
    inherited: &HashSet<String>,
    owner: &str,
    out: &mut BTreeSet<Viol>,
) {
    let mut seen: HashSet<&str> = HashSet::new();
    for c in cs {
        match scope.iter().find(|f| f.id() == Some(c.id.as_str())) {
            None => {
                out.insert(v(15, format!("constraint `{}` names no field (in `{owner}`)", c.id)));
            }
            Some(f) => match &f.kind {
                FieldKind::Array { .. } => {
                    out.insert(v(16, format!("constraint `{}` names an array (in `{owner}`)", c.id)));
                }
                FieldKind::Scalar { width, .. } => match &c.val {
                    CVal::Tag(_) => {
                        out.insert(v(17, format!("scalar `{}` constrained by a tag (in `{owner}`)", c.id)));
                    }
                    CVal::Int(val) => {
                        if !fits(*val, *width) {
                            out.insert(v(18, format!("constraint value {val} does not fit `{}` (in `{owner}`)", c.id)));
                        }
                    }
                },
                FieldKind::Typedef { type_id, .. } => match d.get(type_id) {
                    None => {}
                    Some(Decl { kind: DeclKind::Enum { tags, .. }, .. }) => match &c.val {
                        CVal::Int(_) => {
                            out.insert(v(19, format!("enum field `{}` constrained by an integer (in `{owner}`)", c.id)));
                        }
                        CVal::Tag(t) => match tags.iter().find(|x| x.id() == t) {
                            None => {
                                out.insert(v(20, format!("unknown tag `{t}` for `{}` (in `{owner}`)", c.id)));
                            }
                            Some(Tag::Range { .. }) => {
                                out.insert(v(42, format!("range tag `{t}` for `{}` (in `{owner}`)", c.id)));
                            }
                            Some(_) => {}
                        },
                    },
                    Some(_) => {
                        out.insert(v(21, format!("non-enum typedef `{}` constrained (in `{owner}`)", c.id)));
                    }
                },
                _ => {}
            },
        }
        if !seen.insert(c.id.as_str()) || inherited.contains(&c.id) {
            out.insert(v(22, format!("field `{}` constrained twice (in `{owner}`)", c.id)));
        }
    }
}

/// Constructs the reference leaves unspecified or that belong to user-supplied code; states
/// containing them are outside the well-formedness oracle (they are still fed to the analyzer
/// for the no-crash property).
pub fn unspecified(d: &Desc) -> Option<String> {
    for decl in &d.decls {
        match &decl.kind {
            DeclKind::Checksum { .. } => return Some("checksum declaration".into()),
            DeclKind::Enum { tags, width } => {
                if tags.is_empty() {
                    return Some("empty enum".into());
                }
                if *width == 0 {
                    return Some("zero-width enum".into());
                }
                for t in tags {
                    if let Tag::Range { lo, hi, .. } = t {
                        if lo == hi {
                            return Some("single-value range".into());
                        }
                    }
                }
            }
            _ => {}
        }
        for f in decl.fields() {
            match &f.kind {
                FieldKind::Checksum { .. } => return Some("checksum field".into()),
                FieldKind::Scalar { width: 0, .. }
                | FieldKind::Reserved { width: 0 }
                | FieldKind::Size { width: 0, .. }
                | FieldKind::Count { width: 0, .. }
                | FieldKind::ElementSize { width: 0, .. }
                | FieldKind::FixedScalar { width: 0, .. } => return Some("zero-width field".into()),
                FieldKind::Array { elem: Elem::Width(0), .. } => return Some("zero-width element".into()),
                // "+k" alters the octet size announced by the size field; with no size field
                // (or a count field) the reference gives it no meaning
                FieldKind::Array { id, shape: Shape::Modifier(_), .. } => {
                    if !decl.fields().iter().any(|g| matches!(&g.kind, FieldKind::Size { field_id, .. } if field_id == id)) {
                        return Some("array size modifier without a size field".into());
                    }
                }
                _ => {}
            }
        }
    }
    // a default tag or a range tag used as a constant (fixed field, constraint): the reference
    // only speaks of "an enum tag"; such tags have no single value
    let valueless_k = |enum_id: &str, tag: &str, ranges_too: bool| -> bool {
        match d.get(enum_id) {
            Some(Decl { kind: DeclKind::Enum { tags, .. }, .. }) => tags.iter().any(|t| match t {
                Tag::Other { id } => id == tag,
                Tag::Range { id, .. } => ranges_too && id == tag,
                _ => false,
            }),
            _ => false,
        }
    };
    // constraints by a range tag are a rule of their own (E42)
    let valueless = |enum_id: &str, tag: &str| valueless_k(enum_id, tag, false);
    let field_enum = |owner: &Decl, field: &str| -> Option<String> {
        for a in d.ancestry(&owner.id) {
            for f in a.fields() {
                if let FieldKind::Typedef { id, type_id } = &f.kind {
                    if id == field {
                        return Some(type_id.clone());
                    }
                }
            }
        }
        None
    };
    for decl in &d.decls {
        for f in decl.fields() {
            match &f.kind {
                FieldKind::FixedEnum { enum_id, tag_id } if valueless_k(enum_id, tag_id, true) => {
                    return Some("range or default tag used as a fixed value".into());
                }
                FieldKind::Group { group_id, constraints } => {
                    if let Some(g) = d.get(group_id) {
                        for c in constraints {
                            if let (CVal::Tag(t), Some(e)) = (&c.val, field_enum(g, &c.id)) {
                                if valueless(&e, t) {
                                    return Some("range or default tag used as a constraint value".into());
                                }
                            }
                        }
                    }
                }
                _ => {}
            }
        }
        if let Some(p) = decl.parent().and_then(|p| d.get(p)) {
            for c in decl.constraints() {
                if let (CVal::Tag(t), Some(e)) = (&c.val, field_enum(p, &c.id)) {
                    if valueless(&e, t) {
                        return Some("range or default tag used as a constraint value".into());
                    }
                }
            }
        }
    }
    // a constraint (declaration or group) naming an optional field or a condition flag: the
    // reference does not say what that means
    let special: std::collections::HashSet<&str> = d
        .decls
        .iter()
        .flat_map(|x| x.fields().iter())
        .flat_map(|f| {
            let mut v: Vec<&str> = vec![];
            if let Some(c) = &f.cond {
                v.push(c.id.as_str());
                if let Some(id) = f.id() {
                    v.push(id);
                }
            }
            v
        })
        .collect();
    for decl in &d.decls {
        for c in decl.constraints() {
            if special.contains(c.id.as_str()) {
                return Some("constraint on an optional field or flag".into());
            }
        }
        for f in decl.fields() {
            if let FieldKind::Group { constraints, .. } = &f.kind {
                for c in constraints {
                    if special.contains(c.id.as_str()) {
                        return Some("constraint on an optional field or flag".into());
                    }
                }
            }
        }
    }
    None
}

pub fn wf(d: &Desc) -> bool {
    rules(d).is_empty()
}

/// Named trigger predicates of the known findings (see known_findings.json): a panic is only
/// attributed to a known finding when the state shows that finding's trigger.
pub fn triggers(d: &Desc) -> Vec<&'static str> {
    let mut t = vec![];
    let mut special: std::collections::HashSet<&str> = std::collections::HashSet::new();
    for f in d.decls.iter().flat_map(|x| x.fields().iter()) {
        if let Some(c) = &f.cond {
            special.insert(c.id.as_str());
            if let Some(id) = f.id() {
                special.insert(id);
            }
        }
    }
    let mut constrained_special = false;
    for (i, decl) in d.decls.iter().enumerate() {
        for c in decl.constraints() {
            if special.contains(c.id.as_str()) {
                constrained_special = true;
            }
        }
        for f in decl.fields() {
            match &f.kind {
                FieldKind::Group { constraints, .. } => {
                    if constraints.iter().any(|c| special.contains(c.id.as_str())) {
                        constrained_special = true;
                    }
                }
                FieldKind::Typedef { type_id, .. } | FieldKind::Array { elem: Elem::Type(type_id), .. } => {
                    if matches!(d.get(type_id), Some(Decl { kind: DeclKind::Group { .. }, .. })) && !t.contains(&"group-used-as-type") {
                        t.push("group-used-as-type");
                    }
                }
                FieldKind::FixedEnum { enum_id, .. } => {
                    // the enum is declared after its use
                    if d.decls.iter().position(|x| &x.id == enum_id).map(|p| p > i).unwrap_or(false) && !t.contains(&"fixed-enum-forward-reference") {
                        t.push("fixed-enum-forward-reference");
                    }
                }
                _ => {}
            }
        }
    }
    if constrained_special {
        t.push("constraint-on-optional-or-flag");
    }
    t
}
