//! Which constructs each backend documents as supported (from the generated-code guides, the
//! `todo!()` markers and the `--exclude-declaration` lists of the repository's own test scripts).
//! Decided on the model (the group-inlined description), never by running the backend.

use crate::ir::*;
use crate::rules::{bitfield_width, is_bitfield};

#[derive(Debug, Clone, Copy, PartialEq, Eq, Hash, PartialOrd, Ord)]
pub enum Lang {
    Json,
    Rust,
    Python,
    Cxx,
    Java,
}

/// None = supported; Some(reason) otherwise. `d` must be well-formed and group-inlined.
pub fn unsupported(lang: Lang, d: &Desc) -> Option<String> {
    if lang == Lang::Json {
        return None;
    }
    for decl in &d.decls {
        match &decl.kind {
            DeclKind::Checksum { .. } => return Some("checksum declaration".into()),
            DeclKind::Custom { width, .. } => {
                if lang == Lang::Cxx || lang == Lang::Java {
                    return Some("custom field".into());
                }
                match width {
                    None => return Some("unsized custom field (user supplied code)".into()),
                    Some(w) => {
                        if *w > 64 || w % 8 != 0 {
                            return Some("custom field width".into());
                        }
                    }
                }
                if lang == Lang::Python {
                    return Some("custom field (needs a user module)".into());
                }
            }
            DeclKind::Enum { width, tags } => {
                if *width > 64 {
                    return Some("enum wider than 64 bits".into());
                }
                // todo!() in the Rust backend: default tag in first position
                if matches!(tags.first(), Some(Tag::Other { .. })) && tags.len() > 1 && lang == Lang::Rust {
                    return Some("default tag in first position (todo!())".into());
                }
            }
            DeclKind::Group { .. } => return Some("group left after inlining".into()),
            // generate_struct_declaration never looks at the parent: a derived struct is emitted
            // with its own fields only (the repository's C++ tests cover packets only)
            DeclKind::Struct { parent: Some(_), .. } if lang == Lang::Cxx => return Some("derived struct (C++ backend ignores struct parents)".into()),
            // ... and a struct with a payload is only meaningful as a parent (its Parse assigns a
            // slice to a byte vector and does not compile)
            DeclKind::Struct { fields, .. } if lang == Lang::Cxx && fields.iter().any(|f| f.is_payload()) => return Some("struct with a payload (C++ backend has no derived structs)".into()),
            _ => {}
        }
        let fields = decl.fields();
        // two parts of unknown size in one declaration cannot be told apart by any parser (the
        // C++ backend refuses them explicitly)
        if decl.is_pkt_or_struct() {
            let unknown = fields
                .iter()
                .filter(|f| f.cond.is_none() && crate::sizes::field_size(d, decl, f) == crate::sizes::Size::Unknown)
                .count();
            if unknown > 1 {
                return Some("more than one field of unknown size in a declaration".into());
            }
            // a size / count / element-size field declared after the array or payload it describes:
            // accepted by the analyzer, but no parser can use a length it has not read yet (the
            // Rust output does not compile, the Python output raises UnboundLocalError)
            for (i, f) in fields.iter().enumerate() {
                if let FieldKind::Size { field_id, .. } | FieldKind::Count { field_id, .. } | FieldKind::ElementSize { field_id, .. } = &f.kind {
                    let target = fields.iter().position(|g| match &g.kind {
                        FieldKind::Payload { .. } => field_id == "_payload_",
                        FieldKind::Body => field_id == "_body_",
                        _ => g.id() == Some(field_id.as_str()),
                    });
                    if target.map(|p| p < i).unwrap_or(false) {
                        return Some("size/count field declared after its target".into());
                    }
                }
            }
            if lang == Lang::Cxx {
                // cxx.rs get_trailing_size refuses ("Multiple unknown size fields") a field of
                // unknown size that is followed by anything that is not of constant size
                if let Some(i) = fields.iter().position(|f| f.cond.is_none() && crate::sizes::field_size(d, decl, f) == crate::sizes::Size::Unknown) {
                    if fields[i + 1..].iter().any(|g| !matches!(crate::sizes::field_size(d, decl, g), crate::sizes::Size::Static(_))) {
                        return Some("field of unknown size followed by a field of non-constant size (refused by the C++ backend)".into());
                    }
                }
            }
            if lang == Lang::Java && fields.iter().any(|f| matches!(&f.kind, FieldKind::Size { field_id, .. } if field_id == "_body_")) {
                // run_java_generator_tests.sh excludes Packet_Body_Field_VariableSize: the size
                // field of a body is emitted as the size of an array called `body`
                return Some("_size_(_body_) (excluded by the repository's Java test script)".into());
            }
            if lang == Lang::Java && fields.iter().any(|f| matches!(f.kind, FieldKind::Body)) && d.children(&decl.id).next().is_none() {
                return Some("_body_ without children (explicit panic in the Java backend)".into());
            }
        }
        let mut group_bits = 0u64;
        for (i, f) in fields.iter().enumerate() {
            if f.cond.is_some() {
                if lang == Lang::Java {
                    return Some("optional field".into());
                }
                match &f.kind {
                    FieldKind::Scalar { width, .. } => {
                        if *width > 64 {
                            return Some("wide optional".into());
                        }
                    }
                    FieldKind::Typedef { type_id, .. } => match d.get(type_id).map(|x| &x.kind) {
                        Some(DeclKind::Enum { .. }) | Some(DeclKind::Struct { .. }) => {}
                        _ => return Some("optional field of custom/checksum type".into()),
                    },
                    _ => return Some("optional field kind".into()),
                }
                group_bits = 0;
                continue;
            }
            if is_bitfield(d, f) {
                let w = bitfield_width(d, f).unwrap_or(0);
                if w > 64 {
                    return Some("bit-field wider than 64 bits".into());
                }
                group_bits += w;
                if group_bits > 64 {
                    return Some("bit-field group wider than 64 bits".into());
                }
                if group_bits % 8 == 0 {
                    group_bits = 0;
                }
                if let FieldKind::ElementSize { .. } = f.kind {
                    if lang == Lang::Python || lang == Lang::Java {
                        return Some("element size field".into());
                    }
                }
                continue;
            }
            group_bits = 0;
            match &f.kind {
                FieldKind::Checksum { .. } => return Some("checksum field".into()),
                FieldKind::Array { elem, shape, .. } => {
                    if let Shape::Modifier(_) = shape {
                        if lang == Lang::Rust {
                            return Some("array size modifier".into());
                        }
                    }
                    if let Elem::Width(w) = elem {
                        if *w > 64 {
                            return Some("array element wider than 64 bits".into());
                        }
                    }
                    if let Shape::Static(n) = shape {
                        if *n > 32 && lang == Lang::Rust {
                            // serde implements [T; N] only up to 32: harness limit, not a backend one
                            return Some("static array longer than 32 (harness: serde)".into());
                        }
                    }
                    if lang == Lang::Java {
                        if let Some(FieldKind::Padding { .. }) = fields.get(i + 1).map(|n| &n.kind) {
                            return Some("padding".into());
                        }
                    }
                }
                _ => {}
            }
        }
        // Java: constraints on >1st order ancestors
        if lang == Lang::Java {
            if let Some(p) = decl.parent() {
                if let Some(pd) = d.get(p) {
                    for c in decl.constraints() {
                        if !pd.fields().iter().any(|f| f.id() == Some(c.id.as_str())) {
                            return Some("constraint on a >1st order ancestor".into());
                        }
                    }
                }
            }
        }
    }
    None
}
