//! Description IR: a small mirror of `pdl_compiler::ast::File` that the explorer owns.
//!
//! The IR deliberately allows ill-formed descriptions (undeclared identifiers, out of range
//! values, ...): they are the inputs of the analyzer checks.

use serde::{Deserialize, Serialize};

#[derive(Debug, Clone, Copy, PartialEq, Eq, Hash, PartialOrd, Ord, Serialize, Deserialize)]
pub enum Endian {
    Little,
    Big,
}

#[derive(Debug, Clone, PartialEq, Eq, Hash, PartialOrd, Ord, Serialize, Deserialize)]
pub enum CVal {
    Int(u64),
    Tag(String),
}

#[derive(Debug, Clone, PartialEq, Eq, Hash, PartialOrd, Ord, Serialize, Deserialize)]
pub struct Constraint {
    pub id: String,
    pub val: CVal,
}

#[derive(Debug, Clone, PartialEq, Eq, Hash, PartialOrd, Ord, Serialize, Deserialize)]
pub enum Tag {
    Value { id: String, value: u64 },
    Range { id: String, lo: u64, hi: u64, tags: Vec<(String, u64)> },
    Other { id: String },
}

impl Tag {
    pub fn id(&self) -> &str {
        match self {
            Tag::Value { id, .. } | Tag::Range { id, .. } | Tag::Other { id } => id,
        }
    }
}

#[derive(Debug, Clone, PartialEq, Eq, Hash, PartialOrd, Ord, Serialize, Deserialize)]
pub enum Elem {
    Width(u64),
    Type(String),
}

#[derive(Debug, Clone, PartialEq, Eq, Hash, PartialOrd, Ord, Serialize, Deserialize)]
pub enum Shape {
    Unsized,
    Static(u64),
    Modifier(u64),
}

#[derive(Debug, Clone, PartialEq, Eq, Hash, PartialOrd, Ord, Serialize, Deserialize)]
pub enum FieldKind {
    Checksum { field_id: String },
    Padding { size: u64 },
    Size { field_id: String, width: u64 },
    Count { field_id: String, width: u64 },
    ElementSize { field_id: String, width: u64 },
    Body,
    Payload { modifier: Option<u64> },
    FixedScalar { width: u64, value: u64 },
    FixedEnum { enum_id: String, tag_id: String },
    Reserved { width: u64 },
    Array { id: String, elem: Elem, shape: Shape },
    Scalar { id: String, width: u64 },
    Typedef { id: String, type_id: String },
    Group { group_id: String, constraints: Vec<Constraint> },
}

#[derive(Debug, Clone, PartialEq, Eq, Hash, PartialOrd, Ord, Serialize, Deserialize)]
pub struct Field {
    pub kind: FieldKind,
    pub cond: Option<Constraint>,
}

impl Field {
    pub fn new(kind: FieldKind) -> Field {
        Field { kind, cond: None }
    }
    pub fn opt(kind: FieldKind, flag: &str, value: u64) -> Field {
        Field { kind, cond: Some(Constraint { id: flag.to_string(), val: CVal::Int(value) }) }
    }
    /// Identifier of a named field.
    pub fn id(&self) -> Option<&str> {
        match &self.kind {
            FieldKind::Array { id, .. } | FieldKind::Scalar { id, .. } | FieldKind::Typedef { id, .. } => {
                Some(id)
            }
            _ => None,
        }
    }
    pub fn is_payload(&self) -> bool {
        matches!(self.kind, FieldKind::Payload { .. } | FieldKind::Body)
    }
}

#[derive(Debug, Clone, PartialEq, Eq, Hash, PartialOrd, Ord, Serialize, Deserialize)]
pub enum DeclKind {
    Enum { width: u64, tags: Vec<Tag> },
    Packet { parent: Option<String>, constraints: Vec<Constraint>, fields: Vec<Field> },
    Struct { parent: Option<String>, constraints: Vec<Constraint>, fields: Vec<Field> },
    Group { fields: Vec<Field> },
    Custom { width: Option<u64>, function: String },
    Checksum { width: u64, function: String },
}

#[derive(Debug, Clone, PartialEq, Eq, Hash, PartialOrd, Ord, Serialize, Deserialize)]
pub struct Decl {
    pub id: String,
    pub kind: DeclKind,
}

impl Decl {
    pub fn fields(&self) -> &[Field] {
        match &self.kind {
            DeclKind::Packet { fields, .. } | DeclKind::Struct { fields, .. } | DeclKind::Group { fields } => {
                fields
            }
            _ => &[],
        }
    }
    pub fn fields_mut(&mut self) -> Option<&mut Vec<Field>> {
        match &mut self.kind {
            DeclKind::Packet { fields, .. } | DeclKind::Struct { fields, .. } | DeclKind::Group { fields } => {
                Some(fields)
            }
            _ => None,
        }
    }
    pub fn parent(&self) -> Option<&str> {
        match &self.kind {
            DeclKind::Packet { parent, .. } | DeclKind::Struct { parent, .. } => parent.as_deref(),
            _ => None,
        }
    }
    pub fn constraints(&self) -> &[Constraint] {
        match &self.kind {
            DeclKind::Packet { constraints, .. } | DeclKind::Struct { constraints, .. } => constraints,
            _ => &[],
        }
    }
    pub fn is_packet(&self) -> bool {
        matches!(self.kind, DeclKind::Packet { .. })
    }
    pub fn is_struct(&self) -> bool {
        matches!(self.kind, DeclKind::Struct { .. })
    }
    pub fn is_pkt_or_struct(&self) -> bool {
        self.is_packet() || self.is_struct()
    }
    pub fn kind_name(&self) -> &'static str {
        match self.kind {
            DeclKind::Enum { .. } => "enum",
            DeclKind::Packet { .. } => "packet",
            DeclKind::Struct { .. } => "struct",
            DeclKind::Group { .. } => "group",
            DeclKind::Custom { .. } => "custom_field",
            DeclKind::Checksum { .. } => "checksum",
        }
    }
    pub fn payload(&self) -> Option<&Field> {
        self.fields().iter().find(|f| f.is_payload())
    }
}

#[derive(Debug, Clone, PartialEq, Eq, Hash, PartialOrd, Ord, Serialize, Deserialize)]
pub struct Desc {
    pub endian: Endian,
    pub decls: Vec<Decl>,
}

impl Desc {
    pub fn new(endian: Endian) -> Desc {
        Desc { endian, decls: vec![] }
    }
    pub fn get(&self, id: &str) -> Option<&Decl> {
        self.decls.iter().find(|d| d.id == id)
    }
    pub fn children<'a>(&'a self, id: &'a str) -> impl Iterator<Item = &'a Decl> + 'a {
        self.decls.iter().filter(move |d| d.parent() == Some(id))
    }
    /// Chain from the declaration up to its root (self first). Stops on cycles / unknown parents.
    pub fn ancestry<'a>(&'a self, id: &str) -> Vec<&'a Decl> {
        let mut out: Vec<&Decl> = vec![];
        let mut cur = self.get(id);
        while let Some(d) = cur {
            if out.iter().any(|o| o.id == d.id) {
                break;
            }
            out.push(d);
            cur = d.parent().and_then(|p| self.get(p));
        }
        out
    }
    pub fn with_endian(&self, e: Endian) -> Desc {
        Desc { endian: e, decls: self.decls.clone() }
    }
    /// Stable short hash of the structure (FNV-1a over the JSON form); used in file names.
    pub fn hash_hex(&self) -> String {
        let s = serde_json::to_string(self).unwrap();
        format!("{:016x}", fnv1a(s.as_bytes()))
    }
}

pub fn fnv1a(bytes: &[u8]) -> u64 {
    let mut h: u64 = 0xcbf29ce484222325;
    for b in bytes {
        h ^= *b as u64;
        h = h.wrapping_mul(0x100000001b3);
    }
    h
}

// ------------------------------------------------------------------ builders

pub fn scalar(id: &str, w: u64) -> Field {
    Field::new(FieldKind::Scalar { id: id.into(), width: w })
}
pub fn reserved(w: u64) -> Field {
    Field::new(FieldKind::Reserved { width: w })
}
pub fn fixed(w: u64, v: u64) -> Field {
    Field::new(FieldKind::FixedScalar { width: w, value: v })
}
pub fn fixed_enum(e: &str, t: &str) -> Field {
    Field::new(FieldKind::FixedEnum { enum_id: e.into(), tag_id: t.into() })
}
pub fn typedef(id: &str, t: &str) -> Field {
    Field::new(FieldKind::Typedef { id: id.into(), type_id: t.into() })
}
pub fn size_of(target: &str, w: u64) -> Field {
    Field::new(FieldKind::Size { field_id: target.into(), width: w })
}
pub fn count_of(target: &str, w: u64) -> Field {
    Field::new(FieldKind::Count { field_id: target.into(), width: w })
}
pub fn elemsize_of(target: &str, w: u64) -> Field {
    Field::new(FieldKind::ElementSize { field_id: target.into(), width: w })
}
pub fn array_w(id: &str, w: u64, shape: Shape) -> Field {
    Field::new(FieldKind::Array { id: id.into(), elem: Elem::Width(w), shape })
}
pub fn array_t(id: &str, t: &str, shape: Shape) -> Field {
    Field::new(FieldKind::Array { id: id.into(), elem: Elem::Type(t.into()), shape })
}
pub fn padding(n: u64) -> Field {
    Field::new(FieldKind::Padding { size: n })
}
pub fn payload() -> Field {
    Field::new(FieldKind::Payload { modifier: None })
}
pub fn payload_mod(k: u64) -> Field {
    Field::new(FieldKind::Payload { modifier: Some(k) })
}
pub fn body() -> Field {
    Field::new(FieldKind::Body)
}
pub fn group_use(g: &str, cs: Vec<Constraint>) -> Field {
    Field::new(FieldKind::Group { group_id: g.into(), constraints: cs })
}
pub fn cint(id: &str, v: u64) -> Constraint {
    Constraint { id: id.into(), val: CVal::Int(v) }
}
pub fn ctag(id: &str, t: &str) -> Constraint {
    Constraint { id: id.into(), val: CVal::Tag(t.into()) }
}
pub fn packet(id: &str, fields: Vec<Field>) -> Decl {
    Decl { id: id.into(), kind: DeclKind::Packet { parent: None, constraints: vec![], fields } }
}
pub fn child_packet(id: &str, parent: &str, cs: Vec<Constraint>, fields: Vec<Field>) -> Decl {
    Decl { id: id.into(), kind: DeclKind::Packet { parent: Some(parent.into()), constraints: cs, fields } }
}
pub fn strukt(id: &str, fields: Vec<Field>) -> Decl {
    Decl { id: id.into(), kind: DeclKind::Struct { parent: None, constraints: vec![], fields } }
}
pub fn child_struct(id: &str, parent: &str, cs: Vec<Constraint>, fields: Vec<Field>) -> Decl {
    Decl { id: id.into(), kind: DeclKind::Struct { parent: Some(parent.into()), constraints: cs, fields } }
}
pub fn group(id: &str, fields: Vec<Field>) -> Decl {
    Decl { id: id.into(), kind: DeclKind::Group { fields } }
}
pub fn enum_decl(id: &str, width: u64, tags: Vec<Tag>) -> Decl {
    Decl { id: id.into(), kind: DeclKind::Enum { width, tags } }
}
pub fn custom(id: &str, width: Option<u64>) -> Decl {
    Decl { id: id.into(), kind: DeclKind::Custom { width, function: id.to_lowercase() } }
}
pub fn checksum(id: &str, width: u64) -> Decl {
    Decl { id: id.into(), kind: DeclKind::Checksum { width, function: id.to_lowercase() } }
}
pub fn tv(id: &str, v: u64) -> Tag {
    Tag::Value { id: id.into(), value: v }
}
pub fn tr(id: &str, lo: u64, hi: u64, tags: Vec<(&str, u64)>) -> Tag {
    Tag::Range { id: id.into(), lo, hi, tags: tags.into_iter().map(|(a, b)| (a.to_string(), b)).collect() }
}
pub fn tother(id: &str) -> Tag {
    Tag::Other { id: id.into() }
}

pub fn max_of_width(w: u64) -> u64 {
    if w >= 64 {
        u64::MAX
    } else {
        (1u64 << w) - 1
    }
}
