//! Description construction graph: explicit-state BFS over "append one letter" actions,
//! organised in families (DESIGN.md 3.1).  A state is a whole description; deduplication is by
//! structural equality of the IR, so merged states are identical.

use crate::ir::*;
use std::collections::HashSet;
use std::sync::Arc;

#[derive(Debug, Clone, Copy, PartialEq, Eq)]
pub enum Tier {
    Quick,
    Thorough,
}

pub struct Family {
    pub name: &'static str,
    pub init: fn(Tier) -> Vec<Desc>,
    /// successor states of `s` (which is at depth `depth`)
    pub succ: fn(&Desc, usize, Tier) -> Vec<Desc>,
    pub depth: fn(Tier) -> usize,
}

#[derive(Debug, Clone)]
pub struct State {
    pub family: &'static str,
    pub depth: usize,
    /// shared with the deduplication set and the frontier of the search (one copy in memory)
    pub desc: Arc<Desc>,
}

#[derive(Debug, Clone, Default)]
pub struct Explored {
    pub states: Vec<State>,
    pub transitions: usize,
    pub per_family: Vec<(String, usize, usize, usize)>, // name, states, transitions, max depth
}

pub fn bfs(f: &Family, tier: Tier) -> (Vec<State>, usize) {
    let maxd = (f.depth)(tier);
    let mut seen: HashSet<Arc<Desc>> = HashSet::new();
    let mut out: Vec<State> = vec![];
    let mut frontier: Vec<Arc<Desc>> = vec![];
    let mut transitions = 0usize;
    for s in (f.init)(tier) {
        let s = Arc::new(s);
        if seen.insert(s.clone()) {
            out.push(State { family: f.name, depth: 0, desc: s.clone() });
            frontier.push(s);
        }
    }
    for depth in 0..maxd {
        let mut next = vec![];
        for s in &frontier {
            for n in (f.succ)(s, depth, tier) {
                transitions += 1;
                if !seen.contains(&n) {
                    let n = Arc::new(n);
                    seen.insert(n.clone());
                    out.push(State { family: f.name, depth: depth + 1, desc: n.clone() });
                    next.push(n);
                }
            }
        }
        frontier = next;
    }
    (out, transitions)
}

/// Level sizes of one family (diagnostic): stops when a level exceeds `cap` states.
pub fn level_sizes(f: &Family, tier: Tier, cap: usize) -> Vec<usize> {
    let maxd = (f.depth)(tier);
    let mut seen: HashSet<Arc<Desc>> = HashSet::new();
    let mut frontier: Vec<Arc<Desc>> = vec![];
    let mut sizes = vec![];
    for s in (f.init)(tier) {
        let s = Arc::new(s);
        if seen.insert(s.clone()) {
            frontier.push(s);
        }
    }
    sizes.push(frontier.len());
    for depth in 0..maxd {
        let mut next = vec![];
        for s in &frontier {
            for n in (f.succ)(s, depth, tier) {
                if !seen.contains(&n) {
                    let n = Arc::new(n);
                    seen.insert(n.clone());
                    next.push(n);
                }
            }
            if next.len() > cap {
                break;
            }
        }
        sizes.push(next.len());
        if next.len() > cap {
            break;
        }
        frontier = next;
    }
    sizes
}

pub fn explore(families: &[&Family], tier: Tier) -> Explored {
    let mut e = Explored::default();
    let results: Vec<(Vec<State>, usize)> = std::thread::scope(|sc| {
        let hs: Vec<_> = families.iter().map(|f| sc.spawn(move || bfs(f, tier))).collect();
        hs.into_iter().map(|h| h.join().expect("bfs thread")).collect()
    });
    for (f, (states, tr)) in families.iter().zip(results) {
        let maxd = states.iter().map(|s| s.depth).max().unwrap_or(0);
        e.per_family.push((f.name.to_string(), states.len(), tr, maxd));
        e.transitions += tr;
        e.states.extend(states);
    }
    e
}

// ------------------------------------------------------------------ helpers

pub const W_FULL: std::ops::RangeInclusive<u64> = 1..=64;
pub const W_B: [u64; 24] = [1, 2, 3, 4, 5, 7, 8, 9, 12, 15, 16, 17, 23, 24, 25, 31, 32, 33, 40, 48, 56, 57, 63, 64];
pub const W_S: [u64; 9] = [1, 3, 7, 8, 9, 16, 24, 32, 64];

fn le(decls: Vec<Decl>) -> Desc {
    Desc { endian: Endian::Little, decls }
}

/// Append a field to the declaration named `target`; the new field gets the next free name.
fn push_field(s: &Desc, target: &str, f: Field) -> Desc {
    let mut n = s.clone();
    for d in n.decls.iter_mut() {
        if d.id == target {
            if let Some(fs) = d.fields_mut() {
                fs.push(f);
            }
            break;
        }
    }
    n
}

fn nfields(s: &Desc, target: &str) -> usize {
    s.get(target).map(|d| d.fields().len()).unwrap_or(0)
}

fn fname(s: &Desc, target: &str) -> String {
    // names are positional: f<k> with k the field index in its declaration, prefixed by the
    // declaration's ordinal so that scopes do not collide accidentally
    let di = s.decls.iter().position(|d| d.id == target).unwrap_or(0);
    format!("f{}{}", (b'a' + di as u8) as char, nfields(s, target))
}

fn add_decl(s: &Desc, d: Decl) -> Desc {
    let mut n = s.clone();
    n.decls.push(d);
    n
}

fn has_decl(s: &Desc, id: &str) -> bool {
    s.get(id).is_some()
}

pub fn std_enums() -> Vec<Decl> {
    vec![
        enum_decl("En8", 8, vec![tv("A", 1), tv("B", 2)]),
        enum_decl("En3", 3, vec![tv("A", 0), tv("B", 5)]),
        enum_decl("Eo4", 4, vec![tv("A", 1), tr("R", 2, 5, vec![("R3", 3)]), tother("O")]),
        enum_decl("En16", 16, vec![tv("A", 0x1234), tv("B", 0xfffe), tr("R", 0x100, 0x1ff, vec![])]),
        enum_decl("En24", 24, vec![tv("A", 0x010203), tv("B", 0xfffffe)]),
    ]
}

// ------------------------------------------------------------------ BF: bit-field groups

fn bf_init(_t: Tier) -> Vec<Desc> {
    let mut decls = std_enums();
    decls.push(packet("P", vec![]));
    vec![le(decls)]
}

fn bf_succ(s: &Desc, _depth: usize, tier: Tier) -> Vec<Desc> {
    let k = nfields(s, "P");
    let mut out = vec![];
    let name = fname(s, "P");
    let widths: Vec<u64> = match (k, tier) {
        (0, _) | (1, _) => W_FULL.collect(),
        (2, Tier::Quick) => W_S.to_vec(),
        (2, Tier::Thorough) => W_B.to_vec(),
        _ => W_S.to_vec(),
    };
    for w in &widths {
        out.push(push_field(s, "P", scalar(&name, *w)));
    }
    // the other bit-field kinds at the small alphabet
    if k < 2 || (k < 3 && tier == Tier::Thorough) {
        for w in [1u64, 3, 7, 8, 9, 16] {
            out.push(push_field(s, "P", reserved(w)));
        }
        for (w, v) in [(1u64, 1u64), (3, 5), (7, 0x55), (8, 0xa5), (9, 0x1a5), (16, 0xa55a), (24, 0xc0ffee), (33, 0x1_dead_beef)] {
            out.push(push_field(s, "P", fixed(w, v)));
        }
        for e in ["En8", "En3", "Eo4", "En16"] {
            out.push(push_field(s, "P", typedef(&name, e)));
        }
        out.push(push_field(s, "P", fixed_enum("En3", "B")));
        out.push(push_field(s, "P", fixed_enum("En8", "A")));
    }
    out
}

// Depth bounds. Thorough uses the larger alphabets everywhere and deeper searches where a
// fourth / fifth letter completes a mechanism (arrays with size, padding and a neighbour;
// nested structs; inheritance chains); measured level sizes put the whole thorough graph at
// about 3.3e6 states (10 GB resident with shared state storage). Deeper bounds for BF (2.8e6
// states at depth 4), PL (2.0e6 at 5), IN (> 3e6 at 3) and MIX (1.4e6 at 4) do not fit next to
// the other engines' memory on this machine and are not part of the tier.
pub static BF: Family = Family { name: "BF", init: bf_init, succ: bf_succ, depth: |t| if t == Tier::Quick { 3 } else { 3 } };

// ------------------------------------------------------------------ AR: arrays

fn ar_init(_t: Tier) -> Vec<Desc> {
    let mut decls = std_enums();
    decls.push(strukt("Ss", vec![scalar("a", 8), scalar("b", 16)]));
    decls.push(strukt("Sd", vec![count_of("v", 8), array_w("v", 8, Shape::Unsized)]));
    decls.push(strukt("Su", vec![scalar("t", 8), array_w("w", 8, Shape::Unsized)]));
    decls.push(custom("Cu16", Some(16)));
    decls.push(packet("P", vec![]));
    vec![le(decls)]
}

fn ar_succ(s: &Desc, _depth: usize, tier: Tier) -> Vec<Desc> {
    let mut out = vec![];
    let p = s.get("P").unwrap();
    let has_array = p.fields().iter().any(|f| matches!(f.kind, FieldKind::Array { .. }));
    let last_is_array = matches!(p.fields().last().map(|f| &f.kind), Some(FieldKind::Array { .. }));
    let small: Vec<u64> = if tier == Tier::Quick { vec![3, 8, 16] } else { vec![1, 3, 5, 8, 12, 16, 24, 64] };
    if !has_array {
        for w in &small {
            out.push(push_field(s, "P", size_of("x", *w)));
            out.push(push_field(s, "P", count_of("x", *w)));
        }
        for w in [4u64, 8, 16] {
            out.push(push_field(s, "P", elemsize_of("x", w)));
        }
        // fill bits so that odd-width size fields can be completed
        for w in [5u64, 8] {
            out.push(push_field(s, "P", scalar(&fname(s, "P"), w)));
        }
        let elems: Vec<Elem> = {
            let mut e = vec![Elem::Width(8), Elem::Width(16), Elem::Width(24), Elem::Width(32), Elem::Width(64)];
            if tier == Tier::Thorough {
                e.extend([Elem::Width(40), Elem::Width(48), Elem::Width(56), Elem::Width(12)]);
            }
            for t in ["En8", "En16", "En24", "En3", "Ss", "Sd", "Su", "Cu16"] {
                e.push(Elem::Type(t.into()));
            }
            e
        };
        for e in elems {
            for sh in [Shape::Unsized, Shape::Modifier(2), Shape::Static(0), Shape::Static(1), Shape::Static(3), Shape::Static(32)] {
                out.push(push_field(s, "P", Field::new(FieldKind::Array { id: "x".into(), elem: e.clone(), shape: sh })));
            }
        }
    } else {
        if last_is_array {
            for n in [0u64, 1, 4, 6, 100] {
                out.push(push_field(s, "P", padding(n)));
            }
        }
        // one neighbour after
        out.push(push_field(s, "P", scalar(&fname(s, "P"), 8)));
        out.push(push_field(s, "P", scalar(&fname(s, "P"), 16)));
        // late size / count (forward declared arrays are fine, late ones are odd but legal)
        out.push(push_field(s, "P", count_of("x", 8)));
        out.push(push_field(s, "P", size_of("x", 8)));
    }
    out
}

pub static AR: Family = Family { name: "AR", init: ar_init, succ: ar_succ, depth: |t| if t == Tier::Quick { 3 } else { 4 } };

// ------------------------------------------------------------------ PL: payload / body

fn pl_init(_t: Tier) -> Vec<Desc> {
    vec![le(vec![packet("P", vec![])]), le(vec![strukt("P", vec![])])]
}

fn pl_succ(s: &Desc, _depth: usize, tier: Tier) -> Vec<Desc> {
    let mut out = vec![];
    let p = s.get("P").unwrap();
    let is_packet = p.is_packet();
    if has_decl(s, "C") {
        return out;
    }
    let name = fname(s, "P");
    if p.payload().is_none() {
        let ws: Vec<u64> = if tier == Tier::Quick { vec![3, 8, 16] } else { vec![1, 3, 5, 8, 12, 16, 24, 32, 64] };
        for w in ws {
            out.push(push_field(s, "P", size_of("_payload_", w)));
        }
        out.push(push_field(s, "P", size_of("_body_", 8)));
        out.push(push_field(s, "P", payload()));
        out.push(push_field(s, "P", payload_mod(1)));
        out.push(push_field(s, "P", payload_mod(2)));
        out.push(push_field(s, "P", body()));
        out.push(push_field(s, "P", scalar(&name, 5)));
        out.push(push_field(s, "P", scalar(&name, 8)));
        if tier == Tier::Thorough {
            out.push(push_field(s, "P", scalar(&name, 16)));
            out.push(push_field(s, "P", array_w(&name, 8, Shape::Static(2))));
        }
    } else {
        // trailers and late size fields (the 4- and 12-bit letters build trailers whose fields
        // are not whole octets one by one, only together)
        out.push(push_field(s, "P", scalar(&name, 8)));
        out.push(push_field(s, "P", scalar(&name, 16)));
        out.push(push_field(s, "P", scalar(&name, 4)));
        out.push(push_field(s, "P", scalar(&name, 12)));
        out.push(push_field(s, "P", array_w(&name, 8, Shape::Static(2))));
        out.push(push_field(s, "P", array_w(&name, 8, Shape::Unsized)));
        out.push(push_field(s, "P", size_of("_payload_", 8)));
        out.push(push_field(s, "P", payload()));
        let bodies: Vec<Vec<Field>> = vec![
            vec![],
            vec![scalar("ca", 8)],
            vec![scalar("ca", 16), scalar("cb", 8)],
            vec![array_w("ca", 8, Shape::Unsized)],
            vec![array_w("ca", 16, Shape::Unsized)],
            vec![scalar("ca", 4)],
        ];
        for b in bodies {
            let c = if is_packet { child_packet("C", "P", vec![], b) } else { child_struct("C", "P", vec![], b) };
            out.push(add_decl(s, c));
        }
    }
    out
}

pub static PL: Family = Family { name: "PL", init: pl_init, succ: pl_succ, depth: |t| if t == Tier::Quick { 4 } else { 4 } };
// (quick: the size-field width alphabet is {3, 8, 16}; a child is added in one step with its body)

// ------------------------------------------------------------------ OP: optional fields

fn op_init(_t: Tier) -> Vec<Desc> {
    let mut decls = std_enums();
    decls.push(strukt("Ss", vec![scalar("a", 8), scalar("b", 16)]));
    decls.push(strukt("Sd", vec![count_of("v", 8), array_w("v", 8, Shape::Unsized)]));
    decls.push(packet("P", vec![]));
    let mut decls2 = std_enums();
    decls2.push(strukt("Ss", vec![scalar("a", 8), scalar("b", 16)]));
    decls2.push(strukt("P", vec![]));
    vec![le(decls), le(decls2)]
}

fn op_succ(s: &Desc, _depth: usize, tier: Tier) -> Vec<Desc> {
    let mut out = vec![];
    let p = s.get("P").unwrap();
    let name = fname(s, "P");
    let k = p.fields().len();
    let flags: Vec<String> = p
        .fields()
        .iter()
        .filter_map(|f| match &f.kind {
            FieldKind::Scalar { id, width: 1 } if f.cond.is_none() => Some(id.clone()),
            _ => None,
        })
        .collect();
    let has_opt = p.fields().iter().any(|f| f.cond.is_some());
    // flags and fillers (only in front of the optional fields in quick)
    if !has_opt || tier == Tier::Thorough {
        out.push(push_field(s, "P", scalar(&name, 1)));
        out.push(push_field(s, "P", reserved(7)));
        out.push(push_field(s, "P", reserved(6)));
        out.push(push_field(s, "P", scalar(&name, 7)));
    }
    out.push(push_field(s, "P", scalar(&name, 8)));
    if tier == Tier::Thorough {
        out.push(push_field(s, "P", scalar(&name, 2)));
        out.push(push_field(s, "P", array_w(&name, 8, Shape::Unsized)));
    }
    if k == 0 {
        return out;
    }
    let mut flag_names = flags.clone();
    flag_names.push("nope".into());
    for fl in flag_names.iter() {
        let declared = fl != "nope";
        for cv in [1u64, 0, 2] {
            let mut kinds = vec![FieldKind::Scalar { id: name.clone(), width: 8 }];
            if declared && cv < 2 {
                kinds.extend([
                    FieldKind::Scalar { id: name.clone(), width: 16 },
                    FieldKind::Scalar { id: name.clone(), width: 24 },
                    FieldKind::Scalar { id: name.clone(), width: 40 },
                    FieldKind::Scalar { id: name.clone(), width: 56 },
                    FieldKind::Typedef { id: name.clone(), type_id: "En8".into() },
                    FieldKind::Typedef { id: name.clone(), type_id: "En16".into() },
                    FieldKind::Typedef { id: name.clone(), type_id: "En24".into() },
                    FieldKind::Typedef { id: name.clone(), type_id: "Ss".into() },
                ]);
                if has_decl(s, "Sd") {
                    kinds.push(FieldKind::Typedef { id: name.clone(), type_id: "Sd".into() });
                }
            }
            if declared && (cv == 1 || tier == Tier::Thorough) {
                kinds.push(FieldKind::Scalar { id: name.clone(), width: 3 });
                kinds.push(FieldKind::Scalar { id: name.clone(), width: 64 });
                kinds.push(FieldKind::Scalar { id: name.clone(), width: 32 });
                kinds.push(FieldKind::Scalar { id: name.clone(), width: 48 });
                kinds.push(FieldKind::Typedef { id: name.clone(), type_id: "En3".into() });
                kinds.push(FieldKind::Array { id: name.clone(), elem: Elem::Width(8), shape: Shape::Static(2) });
                kinds.push(FieldKind::Reserved { width: 8 });
            }
            for kd in kinds {
                out.push(push_field(s, "P", Field::opt(kd, fl, cv)));
            }
        }
    }
    // an optional field used as a flag (E49), a wide "flag" (E47)
    if let Some(o) = p.fields().iter().find(|f| f.cond.is_some()).and_then(|f| f.id()) {
        out.push(push_field(s, "P", Field::opt(FieldKind::Scalar { id: name.clone(), width: 8 }, o, 1)));
    }
    if let Some(w) = p.fields().iter().find_map(|f| match &f.kind {
        FieldKind::Scalar { id, width } if *width > 1 && f.cond.is_none() => Some(id.clone()),
        _ => None,
    }) {
        out.push(push_field(s, "P", Field::opt(FieldKind::Scalar { id: name.clone(), width: 8 }, &w, 1)));
    }
    out
}

pub static OP: Family = Family { name: "OP", init: op_init, succ: op_succ, depth: |t| if t == Tier::Quick { 4 } else { 4 } };

// ------------------------------------------------------------------ OPN: optional fields nested under a size field

fn opn_init(_t: Tier) -> Vec<Desc> {
    let enums = || vec![enum_decl("En8", 8, vec![tv("A", 1), tv("B", 2)]), enum_decl("En24", 24, vec![tv("A", 0x010203), tv("B", 0xfffffe)])];
    let mut a = enums();
    a.push(packet("Q", vec![scalar("k", 8), size_of("_payload_", 8), payload()]));
    a.push(child_packet("P", "Q", vec![cint("k", 1)], vec![]));
    let mut b = enums();
    b.push(strukt("P", vec![]));
    b.push(packet("W", vec![size_of("x", 8), array_t("x", "P", Shape::Unsized)]));
    let mut c = enums();
    c.push(strukt("P", vec![]));
    c.push(packet("W", vec![count_of("x", 8), array_t("x", "P", Shape::Unsized), scalar("z", 8)]));
    vec![le(a), le(b), le(c)]
}

fn opn_succ(s: &Desc, _depth: usize, _tier: Tier) -> Vec<Desc> {
    let mut out = vec![];
    let p = s.get("P").unwrap();
    let name = fname(s, "P");
    let k = p.fields().len();
    let flags: Vec<String> = p
        .fields()
        .iter()
        .filter_map(|f| match &f.kind {
            FieldKind::Scalar { id, width: 1 } if f.cond.is_none() => Some(id.clone()),
            _ => None,
        })
        .collect();
    if k == 0 {
        out.push(push_field(s, "P", scalar(&name, 1)));
        out.push(push_field(s, "P", scalar(&name, 8)));
    } else if k == 1 {
        out.push(push_field(s, "P", reserved(7)));
        out.push(push_field(s, "P", scalar(&name, 7)));
    } else {
        for fl in &flags {
            for cv in [1u64, 0] {
                for kd in [
                    FieldKind::Scalar { id: name.clone(), width: 8 },
                    FieldKind::Scalar { id: name.clone(), width: 24 },
                    FieldKind::Scalar { id: name.clone(), width: 40 },
                    FieldKind::Scalar { id: name.clone(), width: 64 },
                    FieldKind::Typedef { id: name.clone(), type_id: "En8".into() },
                    FieldKind::Typedef { id: name.clone(), type_id: "En24".into() },
                ] {
                    out.push(push_field(s, "P", Field::opt(kd, fl, cv)));
                }
            }
        }
        out.push(push_field(s, "P", scalar(&name, 8)));
    }
    out
}

pub static OPN: Family = Family { name: "OPN", init: opn_init, succ: opn_succ, depth: |t| if t == Tier::Quick { 3 } else { 4 } };

// ------------------------------------------------------------------ ST: structs

fn st_init(_t: Tier) -> Vec<Desc> {
    vec![le(vec![packet("P", vec![])])]
}

fn st_succ(s: &Desc, depth: usize, _tier: Tier) -> Vec<Desc> {
    let mut out = vec![];
    // add struct declarations of several shapes (at most 2)
    let nstructs = s.decls.iter().filter(|d| d.is_struct()).count();
    if nstructs < 2 && depth < 2 {
        let id = format!("S{nstructs}");
        let inner = if nstructs == 1 { Some("S0") } else { None };
        let mut shapes: Vec<Vec<Field>> = vec![
            vec![scalar("a", 8)],
            vec![scalar("a", 4), scalar("b", 12)],
            vec![count_of("v", 8), array_w("v", 16, Shape::Unsized)],
            vec![size_of("v", 8), array_w("v", 8, Shape::Unsized)],
            vec![scalar("t", 8), array_w("w", 8, Shape::Unsized)],
            vec![scalar("t", 8), payload()],
            vec![size_of("_payload_", 8), payload()],
            vec![],
            vec![scalar("a", 3)],
        ];
        if let Some(i) = inner {
            shapes.push(vec![typedef("n", i)]);
            shapes.push(vec![scalar("k", 8), typedef("n", i)]);
            shapes.push(vec![count_of("ns", 8), array_t("ns", i, Shape::Unsized)]);
            shapes.push(vec![array_t("ns", i, Shape::Static(2))]);
            shapes.push(vec![typedef("n", "S1")]); // self reference
            shapes.push(vec![array_t("ns", "S1", Shape::Unsized)]); // legal recursion
        }
        for fs in shapes {
            let mut n = s.clone();
            n.decls.insert(nstructs, strukt(&id, fs));
            out.push(n);
        }
    }
    // use the structs in P
    let name = fname(s, "P");
    for d in s.decls.iter().filter(|d| d.is_struct()) {
        out.push(push_field(s, "P", typedef(&name, &d.id)));
        out.push(push_field(s, "P", array_t(&name, &d.id, Shape::Unsized)));
        out.push(push_field(s, "P", array_t(&name, &d.id, Shape::Static(2))));
        if !s.get("P").unwrap().fields().iter().any(|f| matches!(f.kind, FieldKind::Count { .. } | FieldKind::Size { .. })) {
            let mut n = push_field(s, "P", count_of(&name, 8));
            n = push_field(&n, "P", array_t(&name, &d.id, Shape::Unsized));
            out.push(n);
            let mut n = push_field(s, "P", size_of(&name, 8));
            n = push_field(&n, "P", array_t(&name, &d.id, Shape::Unsized));
            out.push(n);
        }
    }
    out.push(push_field(s, "P", scalar(&name, 8)));
    out.push(push_field(s, "P", scalar(&name, 4)));
    out
}

pub static ST: Family = Family { name: "ST", init: st_init, succ: st_succ, depth: |t| if t == Tier::Quick { 4 } else { 5 } };

// ------------------------------------------------------------------ IN: inheritance

fn in_roots() -> Vec<Vec<Field>> {
    vec![
        vec![scalar("a", 8), payload()],
        vec![scalar("a", 8), typedef("e", "En8"), payload()],
        vec![scalar("a", 4), scalar("b", 4), size_of("_payload_", 8), payload()],
        vec![scalar("a", 8), payload(), scalar("z", 8)],
        vec![typedef("e", "Eo4"), scalar("a", 4), body()],
        vec![scalar("a", 8)],
        // a dynamically sized field in front of an unsized payload; a sized payload with a
        // multi-octet trailer (the payload-extent code paths that differ between backends)
        vec![scalar("a", 8), count_of("t", 8), array_w("t", 8, Shape::Unsized), payload()],
        vec![scalar("a", 8), size_of("_payload_", 16), payload(), scalar("z", 16)],
    ]
}

fn in_init(_t: Tier) -> Vec<Desc> {
    let mut out = vec![];
    for (i, fs) in in_roots().into_iter().enumerate() {
        let mut decls = std_enums();
        decls.push(packet("R", fs.clone()));
        out.push(le(decls));
        if i < 3 {
            let mut decls = std_enums();
            decls.push(strukt("R", fs));
            out.push(le(decls));
        }
    }
    out
}

fn in_succ(s: &Desc, _depth: usize, tier: Tier) -> Vec<Desc> {
    let mut out = vec![];
    let max_children = if tier == Tier::Quick { 3 } else { 4 };
    let max_depth = if tier == Tier::Quick { 3 } else { 4 };
    let root = s.get("R").unwrap();
    let is_packet = root.is_packet();
    let n_inh = s.decls.iter().filter(|d| d.parent().is_some()).count();
    let id = format!("C{n_inh}");
    for parent in s.decls.iter().filter(|d| d.is_pkt_or_struct()) {
        if s.ancestry(&parent.id).len() > max_depth {
            continue;
        }
        if s.children(&parent.id).count() >= max_children {
            continue;
        }
        // constraint alphabet on the fields in scope
        let mut cs_alpha: Vec<Vec<Constraint>> = vec![vec![]];
        let mut singles: Vec<Constraint> = vec![];
        for a in s.ancestry(&parent.id) {
            for f in a.fields() {
                match &f.kind {
                    FieldKind::Scalar { id, width } => {
                        for v in [0u64, 1, max_of_width(*width)] {
                            singles.push(cint(id, v));
                        }
                        if tier == Tier::Thorough {
                            singles.push(cint(id, max_of_width(*width).wrapping_add(1)));
                        }
                    }
                    FieldKind::Typedef { id, type_id } => {
                        if let Some(Decl { kind: DeclKind::Enum { tags, .. }, .. }) = s.get(type_id) {
                            for t in tags {
                                singles.push(ctag(id, t.id()));
                            }
                        }
                    }
                    _ => {}
                }
            }
        }
        let (max_single, max_total) = if tier == Tier::Quick { (7, 10) } else { (24, 40) };
        for c in singles.iter().take(max_single) {
            cs_alpha.push(vec![c.clone()]);
        }
        for (i, a) in singles.iter().enumerate() {
            for b in singles.iter().skip(i + 1) {
                if a.id != b.id && cs_alpha.len() < max_total {
                    cs_alpha.push(vec![a.clone(), b.clone()]);
                }
            }
        }
        // (the plain scalar body is 16 bits wide: a multi-octet field also exercises the byte
        // order of the buffer the child is parsed from)
        let mut bodies: Vec<Vec<Field>> = vec![
            vec![],
            vec![scalar(&format!("x{n_inh}"), 16)],
            vec![scalar(&format!("x{n_inh}"), 8), payload()],
            vec![payload()],
        ];
        if tier == Tier::Thorough || n_inh == 0 {
            bodies.push(vec![scalar(&format!("x{n_inh}"), 8)]);
            bodies.push(vec![array_w(&format!("x{n_inh}"), 8, Shape::Unsized)]);
        }
        for cs in &cs_alpha {
            for b in &bodies {
                let d = if is_packet {
                    child_packet(&id, &parent.id, cs.clone(), b.clone())
                } else {
                    child_struct(&id, &parent.id, cs.clone(), b.clone())
                };
                out.push(add_decl(s, d));
            }
        }
    }
    out
}

pub static IN: Family = Family { name: "IN", init: in_init, succ: in_succ, depth: |t| if t == Tier::Quick { 2 } else { 2 } };

// ------------------------------------------------------------------ INC: inheritance chains

fn inc_init(_t: Tier) -> Vec<Desc> {
    let mut out = vec![];
    for pk in [true, false] {
        let fs = vec![scalar("a", 8), typedef("e", "En8"), payload()];
        let mut decls = vec![enum_decl("En8", 8, vec![tv("A", 1), tv("B", 2)])];
        decls.push(if pk { packet("R", fs) } else { strukt("R", fs) });
        out.push(le(decls));
    }
    out
}

fn inc_succ(s: &Desc, _depth: usize, _tier: Tier) -> Vec<Desc> {
    let mut out = vec![];
    let last = s.decls.last().unwrap();
    if last.payload().is_none() {
        return out;
    }
    let is_packet = last.is_packet();
    let n = s.decls.len() - 1;
    let id = format!("C{n}");
    let css: Vec<Vec<Constraint>> = vec![
        vec![],
        vec![cint("a", 0)],
        vec![cint("a", 1)],
        vec![ctag("e", "A")],
        vec![ctag("e", "B")],
        vec![cint("a", 1), ctag("e", "A")],
    ];
    let bodies: Vec<Vec<Field>> = vec![
        vec![payload()],
        vec![scalar(&format!("x{n}"), 8), payload()],
        vec![scalar(&format!("x{n}"), 8)],
        vec![],
    ];
    for cs in &css {
        for b in &bodies {
            let d = if is_packet {
                child_packet(&id, &last.id, cs.clone(), b.clone())
            } else {
                child_struct(&id, &last.id, cs.clone(), b.clone())
            };
            out.push(add_decl(s, d));
        }
    }
    out
}

pub static INC: Family = Family { name: "INC", init: inc_init, succ: inc_succ, depth: |t| if t == Tier::Quick { 3 } else { 4 } };

// ------------------------------------------------------------------ EN: enum shapes x use site

pub fn enum_shapes(w: u64) -> Vec<Vec<Tag>> {
    let max = max_of_width(w);
    let mut out = vec![];
    // closed, values only
    out.push(vec![tv("A", 0), tv("B", max)]);
    out.push(vec![tv("A", 1)]);
    if w >= 2 {
        out.push(vec![tv("A", 0), tv("B", 1), tv("C", max - 1)]);
        // one range
        out.push(vec![tr("R", 1, max - 1, vec![])]);
        out.push(vec![tv("A", 0), tr("R", 1, max, vec![])]); // complete with range
        out.push(vec![tr("R", 0, max, vec![])]); // complete single range
        out.push(vec![tr("R", 0, max.min(2), vec![("N", 1)]), tother("O")]);
        out.push(vec![tr("R", 0, 1, vec![]), tr("Q", 2, max, vec![("N", max)])]); // adjacent
        // open
        out.push(vec![tv("A", 0), tother("O")]);
        out.push(vec![tv("A", 1), tr("R", 2, max, vec![]), tother("O")]);
    }
    if w <= 3 {
        // complete by values
        out.push((0..=max).map(|i| tv(&format!("V{i}"), i)).collect());
        let mut t: Vec<Tag> = (0..=max).map(|i| tv(&format!("V{i}"), i)).collect();
        t.push(tother("O"));
        out.push(t);
    }
    // ill-formed shapes
    out.push(vec![tv("A", 0), tv("A", 1)]);
    out.push(vec![tv("A", 1), tv("B", 1)]);
    if w < 64 {
        out.push(vec![tv("A", max + 1)]);
        out.push(vec![tr("R", 0, max + 1, vec![])]);
    }
    if w >= 3 {
        out.push(vec![tr("R", 1, 3, vec![]), tr("Q", 3, 5.min(max), vec![])]); // overlap by one
        out.push(vec![tr("R", 1, 3, vec![]), tv("A", 2)]); // value inside range
        out.push(vec![tr("R", 3, 1, vec![])]); // decreasing
        out.push(vec![tr("R", 1, 3, vec![("N", 4)])]); // nested outside
    }
    out.push(vec![tv("A", 0), tother("O"), tother("Q")]);
    // degenerate
    out.push(vec![tother("O")]);
    out.push(vec![tother("O"), tv("A", 0)]);
    out
}

fn en_init(tier: Tier) -> Vec<Desc> {
    let widths: Vec<u64> = if tier == Tier::Quick {
        vec![1, 2, 3, 5, 8, 9, 16, 24, 32, 33, 63, 64]
    } else {
        vec![1, 2, 3, 4, 5, 6, 7, 8, 9, 12, 15, 16, 17, 24, 31, 32, 33, 63, 64]
    };
    let mut out = vec![];
    for w in widths {
        for tags in enum_shapes(w) {
            out.push(le(vec![enum_decl("E", w, tags), packet("P", vec![])]));
        }
    }
    out
}

fn en_succ(s: &Desc, _depth: usize, _tier: Tier) -> Vec<Desc> {
    let mut out = vec![];
    let w = match &s.get("E").unwrap().kind {
        DeclKind::Enum { width, .. } => *width,
        _ => 8,
    };
    let name = fname(s, "P");
    let k = nfields(s, "P");
    if k == 0 {
        out.push(push_field(s, "P", typedef(&name, "E")));
        out.push(push_field(s, "P", array_t(&name, "E", Shape::Unsized)));
        out.push(push_field(s, "P", array_t(&name, "E", Shape::Static(2))));
        out.push(push_field(s, "P", fixed_enum("E", "A")));
        out.push(push_field(s, "P", fixed_enum("E", "R")));
        out.push(push_field(s, "P", fixed_enum("E", "Zz")));
        let mut n = push_field(s, "P", scalar("c", 1));
        n = push_field(&n, "P", reserved(7));
        n = push_field(&n, "P", Field::opt(FieldKind::Typedef { id: "o".into(), type_id: "E".into() }, "c", 1));
        out.push(n);
    } else if k == 1 && w % 8 != 0 {
        // complete the byte
        out.push(push_field(s, "P", reserved(8 - w % 8)));
        out.push(push_field(s, "P", scalar(&name, 8 - w % 8)));
    }
    // a child constraining the enum field
    if k >= 1 && !has_decl(s, "C") {
        if let Some(Field { kind: FieldKind::Typedef { id, .. }, .. }) = s.get("P").unwrap().fields().first() {
            if let DeclKind::Enum { tags, .. } = &s.get("E").unwrap().kind {
                for t in tags.iter().take(3) {
                    out.push(add_decl(s, child_packet("C", "P", vec![ctag(id, t.id())], vec![])));
                }
                out.push(add_decl(s, child_packet("C", "P", vec![cint(id, 0)], vec![])));
                out.push(add_decl(s, child_packet("C", "P", vec![ctag(id, "Zz")], vec![])));
            }
        }
    }
    out
}

pub static EN: Family = Family { name: "EN", init: en_init, succ: en_succ, depth: |t| if t == Tier::Quick { 2 } else { 3 } };

// ------------------------------------------------------------------ GR: groups

fn gr_init(_t: Tier) -> Vec<Desc> {
    let mut out = vec![];
    let groups: Vec<Vec<Field>> = vec![
        vec![scalar("g", 8)],
        vec![scalar("g", 4), typedef("h", "Eo4")],
        vec![scalar("g", 8), count_of("ga", 8), array_w("ga", 8, Shape::Unsized)],
        vec![scalar("c", 1), reserved(7), Field::opt(FieldKind::Scalar { id: "o".into(), width: 8 }, "c", 1)],
        vec![scalar("g", 3)],
    ];
    for g in groups {
        let mut decls = std_enums();
        decls.push(group("G", g));
        decls.push(packet("P", vec![]));
        out.push(le(decls));
    }
    out
}

fn gr_succ(s: &Desc, _depth: usize, tier: Tier) -> Vec<Desc> {
    let mut out = vec![];
    let name = fname(s, "P");
    let gs: Vec<&Decl> = s.decls.iter().filter(|d| matches!(d.kind, DeclKind::Group { .. })).collect();
    for g in &gs {
        let mut cs_alpha: Vec<Vec<Constraint>> = vec![vec![]];
        for f in g.fields() {
            match &f.kind {
                FieldKind::Scalar { id, width } => {
                    cs_alpha.push(vec![cint(id, 1)]);
                    cs_alpha.push(vec![cint(id, max_of_width(*width))]);
                    cs_alpha.push(vec![cint(id, max_of_width(*width).wrapping_add(1))]);
                    cs_alpha.push(vec![ctag(id, "A")]);
                }
                FieldKind::Typedef { id, .. } => {
                    cs_alpha.push(vec![ctag(id, "A")]);
                    cs_alpha.push(vec![ctag(id, "R")]);
                    cs_alpha.push(vec![ctag(id, "Zz")]);
                    cs_alpha.push(vec![cint(id, 1)]);
                }
                FieldKind::Array { id, .. } => cs_alpha.push(vec![cint(id, 1)]),
                _ => {}
            }
        }
        cs_alpha.push(vec![cint("nope", 1)]);
        let named: Vec<&str> = g.fields().iter().filter_map(|f| f.id()).collect();
        if named.len() >= 2 {
            cs_alpha.push(vec![cint(named[0], 1), cint(named[0], 1)]);
        }
        for cs in cs_alpha {
            out.push(push_field(s, "P", group_use(&g.id, cs)));
        }
    }
    out.push(push_field(s, "P", scalar(&name, 8)));
    out.push(push_field(s, "P", scalar(&name, 4)));
    out.push(push_field(s, "P", scalar("g", 8))); // collides with the group's field
    out.push(push_field(s, "P", group_use("Nope", vec![])));
    out.push(push_field(s, "P", group_use("En8", vec![])));
    // nesting: a second group that uses the first
    if gs.len() == 1 && tier == Tier::Thorough {
        let mut n = s.clone();
        let pos = n.decls.iter().position(|d| d.id == "P").unwrap();
        n.decls.insert(pos, group("G2", vec![scalar("k", 8), group_use("G", vec![])]));
        out.push(n);
        let mut n = s.clone();
        n.decls.insert(pos, group("G2", vec![group_use("G2", vec![])]));
        out.push(n);
    }
    out
}

pub static GR: Family = Family { name: "GR", init: gr_init, succ: gr_succ, depth: |t| if t == Tier::Quick { 2 } else { 3 } };

// ------------------------------------------------------------------ MIX: everything, reduced

fn mix_init(_t: Tier) -> Vec<Desc> {
    let mut decls = std_enums();
    decls.push(strukt("Ss", vec![scalar("a", 8), scalar("b", 16)]));
    decls.push(strukt("Sd", vec![count_of("v", 8), array_w("v", 8, Shape::Unsized)]));
    decls.push(custom("Cu16", Some(16)));
    decls.push(packet("P", vec![]));
    vec![le(decls)]
}

fn mix_succ(s: &Desc, _depth: usize, tier: Tier) -> Vec<Desc> {
    let mut out = vec![];
    let name = fname(s, "P");
    let p = s.get("P").unwrap();
    let prev_arrays: Vec<String> = p
        .fields()
        .iter()
        .filter_map(|f| match &f.kind {
            FieldKind::Array { id, .. } => Some(id.clone()),
            _ => None,
        })
        .collect();
    let mut letters: Vec<Field> = vec![
        scalar(&name, 8),
        scalar(&name, 4),
        scalar(&name, 12),
        scalar(&name, 1),
        reserved(4),
        reserved(7),
        fixed(8, 0x5a),
        fixed(4, 9),
        fixed(4, 16),
        typedef(&name, "En8"),
        typedef(&name, "Eo4"),
        typedef(&name, "Ss"),
        typedef(&name, "Sd"),
        typedef(&name, "Cu16"),
        typedef(&name, "P"),
        typedef(&name, "Nope"),
        array_w(&name, 8, Shape::Unsized),
        array_w(&name, 16, Shape::Static(2)),
        array_t(&name, "Ss", Shape::Unsized),
        array_t(&name, "Sd", Shape::Static(2)),
        payload(),
        body(),
        size_of("_payload_", 8),
        padding(4),
        fixed_enum("En8", "B"),
    ];
    // size / count of the array that will be added next, and of the previous arrays
    let next_name = {
        let di = s.decls.iter().position(|d| d.id == "P").unwrap_or(0);
        format!("f{}{}", (b'a' + di as u8) as char, nfields(s, "P") + 1)
    };
    letters.push(size_of(&next_name, 8));
    letters.push(count_of(&next_name, 4));
    for a in &prev_arrays {
        letters.push(count_of(a, 8));
    }
    // optional on the first 1-bit scalar
    if let Some(fl) = p.fields().iter().find_map(|f| match &f.kind {
        FieldKind::Scalar { id, width: 1 } => Some(id.clone()),
        _ => None,
    }) {
        letters.push(Field::opt(FieldKind::Scalar { id: name.clone(), width: 8 }, &fl, 1));
        letters.push(Field::opt(FieldKind::Typedef { id: name.clone(), type_id: "Ss".into() }, &fl, 0));
    }
    if tier == Tier::Thorough {
        letters.push(scalar(&name, 64));
        letters.push(scalar(&name, 33));
        letters.push(typedef(&name, "En16"));
        letters.push(array_t(&name, "En8", Shape::Unsized));
        letters.push(array_t(&name, "Cu16", Shape::Unsized));
        letters.push(payload_mod(2));
        letters.push(elemsize_of(&next_name, 8));
    }
    for l in letters {
        out.push(push_field(s, "P", l));
    }
    out
}

pub static MIX: Family = Family { name: "MIX", init: mix_init, succ: mix_succ, depth: |t| if t == Tier::Quick { 3 } else { 3 } };

// ------------------------------------------------------------------ DC: declaration-level rules

fn dc_init(_t: Tier) -> Vec<Desc> {
    vec![le(vec![])]
}

fn dc_succ(s: &Desc, _depth: usize, _tier: Tier) -> Vec<Desc> {
    let mut out = vec![];
    let n = s.decls.len();
    let ids: Vec<String> = vec![format!("D{n}"), "D0".into()];
    let refs: Vec<String> = {
        let mut r: Vec<String> = s.decls.iter().map(|d| d.id.clone()).collect();
        r.push(format!("D{n}")); // self
        r.push(format!("D{}", n + 1)); // forward
        r.push("Nope".into());
        r.dedup();
        r
    };
    for id in &ids {
        out.push(add_decl(s, enum_decl(id, 8, vec![tv("A", 1)])));
        out.push(add_decl(s, packet(id, vec![scalar("a", 8)])));
        out.push(add_decl(s, strukt(id, vec![scalar("a", 8)])));
        out.push(add_decl(s, group(id, vec![scalar("g", 8)])));
        out.push(add_decl(s, custom(id, Some(8))));
        out.push(add_decl(s, custom(id, None)));
        for r in &refs {
            out.push(add_decl(s, packet(id, vec![typedef("t", r)])));
            out.push(add_decl(s, strukt(id, vec![typedef("t", r)])));
            out.push(add_decl(s, strukt(id, vec![array_t("t", r, Shape::Unsized)])));
            out.push(add_decl(s, strukt(id, vec![array_t("t", r, Shape::Static(2))])));
            out.push(add_decl(s, packet(id, vec![group_use(r, vec![])])));
            out.push(add_decl(s, group(id, vec![group_use(r, vec![])])));
            out.push(add_decl(s, child_packet(id, r, vec![], vec![])));
            out.push(add_decl(s, child_struct(id, r, vec![], vec![])));
            out.push(add_decl(s, child_packet(id, r, vec![], vec![scalar("x", 8)])));
            out.push(add_decl(s, packet(id, vec![fixed_enum(r, "A")])));
            out.push(add_decl(s, packet(id, vec![scalar("a", 8), payload()])));
        }
    }
    out
}

pub static DC: Family = Family { name: "DC", init: dc_init, succ: dc_succ, depth: |t| if t == Tier::Quick { 2 } else { 3 } };

pub fn all_families() -> Vec<&'static Family> {
    vec![&BF, &AR, &PL, &OP, &OPN, &ST, &IN, &INC, &EN, &GR, &MIX, &DC]
}

pub fn family(name: &str) -> Option<&'static Family> {
    all_families().into_iter().find(|f| f.name == name)
}
