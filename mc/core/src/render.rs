//! IR -> PDL source text, with a recorded span for every AST node and a controllable
//! *presentation* (separators, literal radix, trailing commas).

use crate::ir::*;
use std::collections::BTreeMap;

#[derive(Debug, Clone, Copy, PartialEq, Eq, Hash, PartialOrd, Ord, serde::Serialize, serde::Deserialize)]
pub enum Radix {
    Dec,
    HexLower,  // 0x1f
    HexUpperDigits, // 0x1F
    HexUpperX, // 0X1f
    LeadingZeros, // 0017
}

#[derive(Debug, Clone, Copy, PartialEq, Eq)]
pub enum TokKind {
    Keyword, // needs a whitespace *character* right after it
    Ident,
    Int,
    Punct,
    Str,
    SizeMod,
}

#[derive(Debug, Clone)]
pub struct Tok {
    pub text: String,
    pub kind: TokKind,
    pub int: Option<u64>,
}

/// Presentation: explicit departures from the canonical rendering, by index.
#[derive(Debug, Clone, Default, PartialEq, Eq, serde::Serialize, serde::Deserialize)]
pub struct Pres {
    /// gap index (gap i follows token i) -> separator text
    pub gaps: BTreeMap<usize, String>,
    /// integer literal index -> radix
    pub radix: BTreeMap<usize, Radix>,
    /// list index -> emit a trailing comma
    pub trailing_comma: BTreeMap<usize, bool>,
    /// text put before the first token
    pub prefix: String,
}

#[derive(Debug, Clone, PartialEq, Eq, serde::Serialize, serde::Deserialize)]
pub struct NodeSpan {
    /// e.g. "endian", "d2", "d2.f1", "d2.f1.cond", "d0.t1", "d0.t1.s0", "d3.c0", "d2.f1.c0"
    pub path: String,
    pub start: usize,
    pub end: usize,
}

#[derive(Debug, Clone)]
pub struct Rendered {
    pub text: String,
    pub nodes: Vec<NodeSpan>,
    pub n_tokens: usize,
    pub n_ints: usize,
    pub n_lists: usize,
    pub toks: Vec<Tok>,
    /// declaration index each token belongs to (None: the endianness keyword)
    pub tok_decl: Vec<Option<usize>>,
    /// declaration index of each integer literal
    pub int_decl: Vec<Option<usize>>,
    /// (declaration index, kind) of each list: "tags", "subtags", "fields", "constraints"
    pub lists: Vec<(Option<usize>, &'static str)>,
}

enum Ev {
    Tok(Tok),
    Enter(String),
    Exit,
    /// list end marker: (list index, list kind)
    ListEnd(usize, &'static str),
}

struct B {
    ev: Vec<Ev>,
    lists: usize,
}

impl B {
    fn kw(&mut self, s: &str) {
        self.ev.push(Ev::Tok(Tok { text: s.into(), kind: TokKind::Keyword, int: None }));
    }
    fn id(&mut self, s: &str) {
        self.ev.push(Ev::Tok(Tok { text: s.into(), kind: TokKind::Ident, int: None }));
    }
    fn p(&mut self, s: &str) {
        self.ev.push(Ev::Tok(Tok { text: s.into(), kind: TokKind::Punct, int: None }));
    }
    fn int(&mut self, v: u64) {
        self.ev.push(Ev::Tok(Tok { text: v.to_string(), kind: TokKind::Int, int: Some(v) }));
    }
    fn string(&mut self, s: &str) {
        self.ev.push(Ev::Tok(Tok { text: format!("\"{s}\""), kind: TokKind::Str, int: None }));
    }
    fn sizemod(&mut self, k: u64) {
        self.ev.push(Ev::Tok(Tok { text: format!("+{k}"), kind: TokKind::SizeMod, int: None }));
    }
    fn enter(&mut self, p: String) {
        self.ev.push(Ev::Enter(p));
    }
    fn exit(&mut self) {
        self.ev.push(Ev::Exit);
    }
    fn list_end(&mut self, kind: &'static str) {
        let i = self.lists;
        self.lists += 1;
        self.ev.push(Ev::ListEnd(i, kind));
    }

    fn constraint(&mut self, path: String, c: &Constraint) {
        self.enter(path);
        self.id(&c.id);
        self.p("=");
        match &c.val {
            CVal::Int(v) => self.int(*v),
            CVal::Tag(t) => self.id(t),
        }
        self.exit();
    }

    fn constraint_list(&mut self, base: &str, cs: &[Constraint]) {
        for (i, c) in cs.iter().enumerate() {
            if i > 0 {
                self.p(",");
            }
            self.constraint(format!("{base}.c{i}"), c);
        }
        self.list_end("constraints");
    }

    fn field(&mut self, path: String, f: &Field) {
        self.enter(path.clone());
        match &f.kind {
            FieldKind::Checksum { field_id } => {
                self.id("_checksum_start_");
                self.p("(");
                self.id(field_id);
                self.p(")");
            }
            FieldKind::Padding { size } => {
                self.id("_padding_");
                self.p("[");
                self.int(*size);
                self.p("]");
            }
            FieldKind::Size { field_id, width } => {
                self.id("_size_");
                self.p("(");
                self.id(field_id);
                self.p(")");
                self.p(":");
                self.int(*width);
            }
            FieldKind::Count { field_id, width } => {
                self.id("_count_");
                self.p("(");
                self.id(field_id);
                self.p(")");
                self.p(":");
                self.int(*width);
            }
            FieldKind::ElementSize { field_id, width } => {
                self.id("_elementsize_");
                self.p("(");
                self.id(field_id);
                self.p(")");
                self.p(":");
                self.int(*width);
            }
            FieldKind::Body => self.id("_body_"),
            FieldKind::Payload { modifier } => {
                self.id("_payload_");
                if let Some(k) = modifier {
                    self.p(":");
                    self.p("[");
                    self.sizemod(*k);
                    self.p("]");
                }
            }
            FieldKind::FixedScalar { width, value } => {
                self.id("_fixed_");
                self.p("=");
                self.int(*value);
                self.p(":");
                self.int(*width);
            }
            FieldKind::FixedEnum { enum_id, tag_id } => {
                self.id("_fixed_");
                self.p("=");
                self.id(tag_id);
                self.p(":");
                self.id(enum_id);
            }
            FieldKind::Reserved { width } => {
                self.id("_reserved_");
                self.p(":");
                self.int(*width);
            }
            FieldKind::Array { id, elem, shape } => {
                self.id(id);
                self.p(":");
                match elem {
                    Elem::Width(w) => self.int(*w),
                    Elem::Type(t) => self.id(t),
                }
                self.p("[");
                match shape {
                    Shape::Unsized => {}
                    Shape::Static(n) => self.int(*n),
                    Shape::Modifier(k) => self.sizemod(*k),
                }
                self.p("]");
            }
            FieldKind::Scalar { id, width } => {
                self.id(id);
                self.p(":");
                self.int(*width);
            }
            FieldKind::Typedef { id, type_id } => {
                self.id(id);
                self.p(":");
                self.id(type_id);
            }
            FieldKind::Group { group_id, constraints } => {
                self.id(group_id);
                if !constraints.is_empty() {
                    self.p("{");
                    self.constraint_list(&path, constraints);
                    self.p("}");
                }
            }
        }
        if let Some(c) = &f.cond {
            self.id("if");
            self.constraint(format!("{path}.cond"), c);
        }
        self.exit();
    }

    fn field_list(&mut self, base: &str, fields: &[Field]) {
        for (i, f) in fields.iter().enumerate() {
            if i > 0 {
                self.p(",");
            }
            self.field(format!("{base}.f{i}"), f);
        }
        if !fields.is_empty() {
            self.list_end("fields");
        }
    }

    fn decl(&mut self, i: usize, d: &Decl) {
        let path = format!("d{i}");
        self.enter(path.clone());
        match &d.kind {
            DeclKind::Enum { width, tags } => {
                self.kw("enum");
                self.id(&d.id);
                self.p(":");
                self.int(*width);
                self.p("{");
                for (j, t) in tags.iter().enumerate() {
                    if j > 0 {
                        self.p(",");
                    }
                    self.enter(format!("{path}.t{j}"));
                    match t {
                        Tag::Value { id, value } => {
                            self.id(id);
                            self.p("=");
                            self.int(*value);
                        }
                        Tag::Range { id, lo, hi, tags } => {
                            self.id(id);
                            self.p("=");
                            self.int(*lo);
                            self.p("..");
                            self.int(*hi);
                            if !tags.is_empty() {
                                self.p("{");
                                for (k, (sid, sv)) in tags.iter().enumerate() {
                                    if k > 0 {
                                        self.p(",");
                                    }
                                    self.enter(format!("{path}.t{j}.s{k}"));
                                    self.id(sid);
                                    self.p("=");
                                    self.int(*sv);
                                    self.exit();
                                }
                                self.list_end("subtags");
                                self.p("}");
                            }
                        }
                        Tag::Other { id } => {
                            self.id(id);
                            self.p("=");
                            self.p("..");
                        }
                    }
                    self.exit();
                }
                self.list_end("tags");
                self.p("}");
            }
            DeclKind::Packet { parent, constraints, fields }
            | DeclKind::Struct { parent, constraints, fields } => {
                self.kw(if d.is_packet() { "packet" } else { "struct" });
                self.id(&d.id);
                if let Some(p) = parent {
                    self.p(":");
                    self.id(p);
                }
                if !constraints.is_empty() {
                    self.p("(");
                    self.constraint_list(&path, constraints);
                    self.p(")");
                }
                self.p("{");
                self.field_list(&path, fields);
                self.p("}");
            }
            DeclKind::Group { fields } => {
                self.kw("group");
                self.id(&d.id);
                self.p("{");
                self.field_list(&path, fields);
                self.p("}");
            }
            DeclKind::Custom { width, function } => {
                self.kw("custom_field");
                self.id(&d.id);
                if let Some(w) = width {
                    self.p(":");
                    self.int(*w);
                }
                self.string(function);
            }
            DeclKind::Checksum { width, function } => {
                self.kw("checksum");
                self.id(&d.id);
                self.p(":");
                self.int(*width);
                self.string(function);
            }
        }
        self.exit();
    }
}

pub fn fmt_int(v: u64, r: Radix) -> String {
    match r {
        Radix::Dec => v.to_string(),
        Radix::HexLower => format!("0x{v:x}"),
        Radix::HexUpperDigits => format!("0x{v:X}"),
        Radix::HexUpperX => format!("0X{v:x}"),
        Radix::LeadingZeros => format!("00{v}"),
    }
}

/// True when `a` directly followed by `b` lexes back into the same two tokens.
pub fn can_glue(a: &Tok, b: &Tok) -> bool {
    if a.kind == TokKind::Keyword {
        return false;
    }
    let la = a.text.chars().last().unwrap();
    let fb = b.text.chars().next().unwrap();
    let wordy = |c: char| c.is_ascii_alphanumeric() || c == '_';
    if wordy(la) && wordy(fb) {
        return false;
    }
    // never create `//`, `/*`, `..`-ambiguities
    if (la == '/' && (fb == '/' || fb == '*')) || (la == '.' && fb == '.') {
        return false;
    }
    true
}

pub fn render(d: &Desc, pres: &Pres) -> Rendered {
    let mut b = B { ev: vec![], lists: 0 };
    b.enter("endian".into());
    b.kw(match d.endian {
        Endian::Little => "little_endian_packets",
        Endian::Big => "big_endian_packets",
    });
    b.exit();
    for (i, decl) in d.decls.iter().enumerate() {
        b.decl(i, decl);
    }

    // Layout.
    let mut text = pres.prefix.clone();
    let mut nodes: Vec<NodeSpan> = vec![];
    let mut open: Vec<(String, Option<usize>)> = vec![];
    let mut toks: Vec<Tok> = vec![];
    let mut tok_decl: Vec<Option<usize>> = vec![];
    let mut int_decl: Vec<Option<usize>> = vec![];
    let mut lists: Vec<(Option<usize>, &'static str)> = vec![];
    let mut cur_decl: Option<usize> = None;
    let mut n_ints = 0usize;
    let mut last_end = text.len();
    let mut pending_gap: Option<usize> = None; // token index whose gap is still to be written
    let mut depth_decl_end = false;

    let flush_gap = |text: &mut String, pending: &mut Option<usize>, newline: bool| {
        if let Some(ti) = pending.take() {
            match pres.gaps.get(&ti) {
                Some(g) => text.push_str(g),
                None => text.push_str(if newline { "\n" } else { " " }),
            }
        }
    };

    let evs = b.ev;
    let mut i = 0;
    while i < evs.len() {
        match &evs[i] {
            Ev::Enter(p) => {
                if !p.contains('.') && p.starts_with('d') {
                    cur_decl = p[1..].parse().ok();
                }
                open.push((p.clone(), None))
            }
            Ev::Exit => {
                let (p, s) = open.pop().unwrap();
                nodes.push(NodeSpan { path: p.clone(), start: s.unwrap_or(last_end), end: last_end });
                if !p.contains('.') {
                    depth_decl_end = true;
                }
            }
            Ev::ListEnd(li, kind) => {
                lists.push((cur_decl, kind));
                if pres.trailing_comma.get(li).copied().unwrap_or(false) {
                    flush_gap(&mut text, &mut pending_gap, false);
                    text.push(',');
                    toks.push(Tok { text: ",".into(), kind: TokKind::Punct, int: None });
                    tok_decl.push(cur_decl);
                    pending_gap = Some(toks.len() - 1);
                }
            }
            Ev::Tok(t) => {
                flush_gap(&mut text, &mut pending_gap, depth_decl_end);
                depth_decl_end = false;
                let start = text.len();
                for o in open.iter_mut() {
                    if o.1.is_none() {
                        o.1 = Some(start);
                    }
                }
                let mut t = t.clone();
                if let Some(v) = t.int {
                    let r = pres.radix.get(&n_ints).copied().unwrap_or(Radix::Dec);
                    t.text = fmt_int(v, r);
                    n_ints += 1;
                    int_decl.push(cur_decl);
                }
                text.push_str(&t.text);
                last_end = text.len();
                toks.push(t);
                tok_decl.push(cur_decl);
                pending_gap = Some(toks.len() - 1);
            }
        }
        i += 1;
    }
    // final gap: the endianness keyword needs a whitespace character even at EOF
    flush_gap(&mut text, &mut pending_gap, true);
    nodes.sort_by(|a, b| a.start.cmp(&b.start).then(b.end.cmp(&a.end)));
    Rendered { text, nodes, n_tokens: toks.len(), n_ints, n_lists: b.lists, toks, tok_decl, int_decl, lists }
}

pub fn canonical(d: &Desc) -> String {
    render(d, &Pres::default()).text
}
