//! Independent recognizer of the PDL grammar of doc/reference.md, written as a hand-rolled PEG
//! (ordered choice, implicit whitespace and comments between the items of syntactic rules, none
//! inside tokens).
//!
//! Documented departures from the letter of the reference, all of them extensions the
//! implementation makes on purpose:
//!   * `\r` counts as whitespace; `_elementsize_(id) : INT` is a field;
//!   * the endianness keyword and the declaration keywords must be followed by one whitespace
//!     character (the reference is informal about token separation);
//!   * a group field may carry an empty constraint list `G {}`;
//!   * a line comment ends at the end of the line (the reference text has an obvious typo).

pub struct Rec<'a> {
    s: &'a [u8],
}

type P = Option<usize>;

impl<'a> Rec<'a> {
    pub fn new(text: &'a str) -> Rec<'a> {
        Rec { s: text.as_bytes() }
    }

    pub fn accepts(text: &str) -> bool {
        let r = Rec::new(text);
        r.file()
    }

    fn at(&self, p: usize) -> Option<u8> {
        self.s.get(p).copied()
    }

    fn lit(&self, p: usize, l: &str) -> P {
        if self.s[p.min(self.s.len())..].starts_with(l.as_bytes()) {
            Some(p + l.len())
        } else {
            None
        }
    }

    fn is_ws(c: u8) -> bool {
        c == b' ' || c == b'\n' || c == b'\r' || c == b'\t'
    }

    /// implicit (WHITESPACE | COMMENT)*
    fn skip(&self, mut p: usize) -> usize {
        loop {
            match self.at(p) {
                Some(c) if Self::is_ws(c) => p += 1,
                Some(b'/') if self.at(p + 1) == Some(b'*') => {
                    // block comment: must be terminated, otherwise it is not a comment
                    let mut q = p + 2;
                    let mut closed = None;
                    while q + 1 < self.s.len() + 0 {
                        if self.s[q] == b'*' && self.s[q + 1] == b'/' {
                            closed = Some(q + 2);
                            break;
                        }
                        q += 1;
                    }
                    match closed {
                        Some(e) => p = e,
                        None => return p,
                    }
                }
                Some(b'/') if self.at(p + 1) == Some(b'/') => {
                    let mut q = p + 2;
                    while q < self.s.len() && self.s[q] != b'\n' {
                        q += 1;
                    }
                    p = q;
                }
                _ => return p,
            }
        }
    }

    fn identifier(&self, p: usize) -> P {
        match self.at(p) {
            Some(c) if c.is_ascii_alphabetic() => {
                let mut q = p + 1;
                while let Some(c) = self.at(q) {
                    if c.is_ascii_alphanumeric() || c == b'_' {
                        q += 1;
                    } else {
                        break;
                    }
                }
                Some(q)
            }
            _ => None,
        }
    }

    fn intvalue(&self, p: usize) -> P {
        let mut q = p;
        while let Some(c) = self.at(q) {
            if c.is_ascii_digit() {
                q += 1;
            } else {
                break;
            }
        }
        if q > p {
            Some(q)
        } else {
            None
        }
    }

    fn integer(&self, p: usize) -> P {
        // HEXVALUE | INTVALUE (ordered)
        if let Some(q) = self.lit(p, "0x").or_else(|| self.lit(p, "0X")) {
            let mut e = q;
            while let Some(c) = self.at(e) {
                if c.is_ascii_hexdigit() {
                    e += 1;
                } else {
                    break;
                }
            }
            if e > q {
                return Some(e);
            }
        }
        self.intvalue(p)
    }

    fn string(&self, p: usize) -> P {
        if self.at(p) != Some(b'"') {
            return None;
        }
        let mut q = p + 1;
        while q < self.s.len() {
            if self.s[q] == b'"' {
                return Some(q + 1);
            }
            q += 1;
        }
        None
    }

    fn size_modifier(&self, p: usize) -> P {
        let q = self.lit(p, "+")?;
        self.intvalue(q)
    }

    /// token `l` followed by the implicit skip
    fn tok(&self, p: usize, l: &str) -> P {
        self.lit(p, l).map(|q| self.skip(q))
    }
    fn ident_(&self, p: usize) -> P {
        self.identifier(p).map(|q| self.skip(q))
    }
    fn int_(&self, p: usize) -> P {
        self.integer(p).map(|q| self.skip(q))
    }

    fn keyword(&self, p: usize, k: &str) -> P {
        let q = self.lit(p, k)?;
        match self.at(q) {
            Some(c) if Self::is_ws(c) => Some(self.skip(q + 1)),
            _ => None,
        }
    }

    fn constraint(&self, p: usize) -> P {
        let p = self.ident_(p)?;
        let p = self.tok(p, "=")?;
        self.ident_(p).or_else(|| self.int_(p))
    }

    /// x ("," x)* ","?
    fn list(&self, p: usize, item: &dyn Fn(usize) -> P) -> P {
        let mut p = item(p)?;
        loop {
            match self.tok(p, ",") {
                Some(q) => match item(q) {
                    Some(r) => p = r,
                    None => return Some(q), // trailing comma
                },
                None => return Some(p),
            }
        }
    }

    fn enum_value(&self, p: usize) -> P {
        let p = self.ident_(p)?;
        let p = self.tok(p, "=")?;
        self.int_(p)
    }

    fn enum_tag(&self, p: usize) -> P {
        // enum_range | enum_value | enum_other
        let range = || -> P {
            let q = self.ident_(p)?;
            let q = self.tok(q, "=")?;
            let q = self.int_(q)?;
            let q = self.tok(q, "..")?;
            let q = self.int_(q)?;
            // optional nested list
            let nested = || -> P {
                let r = self.tok(q, "{")?;
                let r = self.list(r, &|x| self.enum_value(x))?;
                self.tok(r, "}")
            };
            Some(nested().unwrap_or(q))
        };
        if let Some(q) = range() {
            return Some(q);
        }
        if let Some(q) = self.enum_value(p) {
            return Some(q);
        }
        let q = self.ident_(p)?;
        let q = self.tok(q, "=")?;
        self.tok(q, "..")
    }

    fn field_desc(&self, p: usize) -> P {
        let paren_id = |p: usize, extra: bool| -> P {
            let q = self.tok(p, "(")?;
            let q = match self.ident_(q) {
                Some(r) => r,
                None if extra => self.tok(q, "_payload_").or_else(|| self.tok(q, "_body_"))?,
                None => return None,
            };
            self.tok(q, ")")
        };
        // checksum
        if let Some(q) = self.tok(p, "_checksum_start_") {
            if let Some(r) = paren_id(q, false) {
                return Some(r);
            }
        }
        if let Some(q) = self.tok(p, "_padding_") {
            let r = (|| {
                let q = self.tok(q, "[")?;
                let q = self.int_(q)?;
                self.tok(q, "]")
            })();
            if r.is_some() {
                return r;
            }
        }
        for (kw, extra) in [("_size_", true), ("_count_", false), ("_elementsize_", false)] {
            if let Some(q) = self.tok(p, kw) {
                let r = (|| {
                    let q = paren_id(q, extra)?;
                    let q = self.tok(q, ":")?;
                    self.int_(q)
                })();
                if r.is_some() {
                    return r;
                }
            }
        }
        if let Some(q) = self.lit(p, "_body_") {
            return Some(self.skip(q));
        }
        if let Some(q) = self.tok(p, "_payload_") {
            let r = (|| {
                let q = self.tok(q, ":")?;
                let q = self.tok(q, "[")?;
                let q = self.size_modifier(q).map(|x| self.skip(x))?;
                self.tok(q, "]")
            })();
            return Some(r.unwrap_or(q));
        }
        if let Some(q) = self.tok(p, "_fixed_") {
            let r = (|| {
                let q = self.tok(q, "=")?;
                let a = (|| {
                    let q = self.int_(q)?;
                    let q = self.tok(q, ":")?;
                    self.int_(q)
                })();
                if a.is_some() {
                    return a;
                }
                let q = self.ident_(q)?;
                let q = self.tok(q, ":")?;
                self.ident_(q)
            })();
            if r.is_some() {
                return r;
            }
        }
        if let Some(q) = self.tok(p, "_reserved_") {
            let r = (|| {
                let q = self.tok(q, ":")?;
                self.int_(q)
            })();
            if r.is_some() {
                return r;
            }
        }
        // array
        let array = (|| {
            let q = self.ident_(p)?;
            let q = self.tok(q, ":")?;
            let q = self.int_(q).or_else(|| self.ident_(q))?;
            let q = self.tok(q, "[")?;
            let q = self.size_modifier(q).map(|x| self.skip(x)).or_else(|| self.int_(q)).unwrap_or(q);
            self.tok(q, "]")
        })();
        if array.is_some() {
            return array;
        }
        let scalar = (|| {
            let q = self.ident_(p)?;
            let q = self.tok(q, ":")?;
            self.int_(q)
        })();
        if scalar.is_some() {
            return scalar;
        }
        let typedef = (|| {
            let q = self.ident_(p)?;
            let q = self.tok(q, ":")?;
            self.ident_(q)
        })();
        if typedef.is_some() {
            return typedef;
        }
        // group
        let q = self.ident_(p)?;
        let braces = (|| {
            let r = self.tok(q, "{")?;
            let r = self.list(r, &|x| self.constraint(x)).unwrap_or(r);
            self.tok(r, "}")
        })();
        Some(braces.unwrap_or(q))
    }

    fn field(&self, p: usize) -> P {
        let q = self.field_desc(p)?;
        let cond = (|| {
            let r = self.tok(q, "if")?;
            self.constraint(r)
        })();
        Some(cond.unwrap_or(q))
    }

    fn parent_and_body(&self, p: usize) -> P {
        let mut p = self.ident_(p)?;
        if let Some(q) = (|| {
            let q = self.tok(p, ":")?;
            self.ident_(q)
        })() {
            p = q;
        }
        if let Some(q) = (|| {
            let q = self.tok(p, "(")?;
            let q = self.list(q, &|x| self.constraint(x))?;
            self.tok(q, ")")
        })() {
            p = q;
        }
        let p = self.tok(p, "{")?;
        let p = self.list(p, &|x| self.field(x)).unwrap_or(p);
        self.tok(p, "}")
    }

    fn declaration(&self, p: usize) -> P {
        if let Some(q) = self.keyword(p, "enum") {
            let r = (|| {
                let q = self.ident_(q)?;
                let q = self.tok(q, ":")?;
                let q = self.int_(q)?;
                let q = self.tok(q, "{")?;
                let q = self.list(q, &|x| self.enum_tag(x))?;
                self.tok(q, "}")
            })();
            if r.is_some() {
                return r;
            }
        }
        if let Some(q) = self.keyword(p, "packet") {
            if let Some(r) = self.parent_and_body(q) {
                return Some(r);
            }
        }
        if let Some(q) = self.keyword(p, "struct") {
            if let Some(r) = self.parent_and_body(q) {
                return Some(r);
            }
        }
        if let Some(q) = self.keyword(p, "group") {
            let r = (|| {
                let q = self.ident_(q)?;
                let q = self.tok(q, "{")?;
                let q = self.list(q, &|x| self.field(x))?;
                self.tok(q, "}")
            })();
            if r.is_some() {
                return r;
            }
        }
        if let Some(q) = self.keyword(p, "checksum") {
            let r = (|| {
                let q = self.ident_(q)?;
                let q = self.tok(q, ":")?;
                let q = self.int_(q)?;
                self.string(q).map(|x| self.skip(x))
            })();
            if r.is_some() {
                return r;
            }
        }
        if let Some(q) = self.keyword(p, "custom_field") {
            let r = (|| {
                let mut q = self.ident_(q)?;
                if let Some(w) = (|| {
                    let w = self.tok(q, ":")?;
                    self.int_(w)
                })() {
                    q = w;
                }
                self.string(q).map(|x| self.skip(x))
            })();
            if r.is_some() {
                return r;
            }
        }
        if let Some(q) = self.keyword(p, "test") {
            let r = (|| {
                let q = self.ident_(q)?;
                let q = self.tok(q, "{")?;
                let q = self.list(q, &|x| self.string(x).map(|y| self.skip(y)))?;
                self.tok(q, "}")
            })();
            if r.is_some() {
                return r;
            }
        }
        None
    }

    fn file(&self) -> bool {
        let p = self.skip(0);
        let p = match self.lit(p, "little_endian_packets").or_else(|| self.lit(p, "big_endian_packets")) {
            Some(q) => q,
            None => return false,
        };
        // one whitespace character is required after the endianness keyword
        let mut p = match self.at(p) {
            Some(c) if Self::is_ws(c) => self.skip(p + 1),
            _ => return false,
        };
        while let Some(q) = self.declaration(p) {
            p = q;
        }
        p == self.s.len()
    }
}
