//! pdlmc-rt: linked into every generated Rust harness. Monomorphic operation tables over the
//! generated types (`pdl_runtime::Packet` + serde), a counting allocator, and the in-process
//! oracles of the Rust engine (see checks.rs).

pub mod checks;

use pdl_runtime::{DecodeError, EncodeError, Packet};
pub use pdlmc_core::model::Val;
use std::collections::BTreeMap;
use std::alloc::{GlobalAlloc, Layout, System};
use std::cell::{Cell, RefCell};
use std::fmt::Debug;
use std::panic::{catch_unwind, AssertUnwindSafe};

// ------------------------------------------------------------------ counting allocator

pub struct CountingAlloc;

thread_local! {
    static CUR: Cell<isize> = const { Cell::new(0) };
    static PEAK: Cell<isize> = const { Cell::new(0) };
    static LAST_PANIC: RefCell<Option<String>> = const { RefCell::new(None) };
}

unsafe impl GlobalAlloc for CountingAlloc {
    unsafe fn alloc(&self, l: Layout) -> *mut u8 {
        let _ = CUR.try_with(|c| {
            let v = c.get() + l.size() as isize;
            c.set(v);
            let _ = PEAK.try_with(|p| {
                if v > p.get() {
                    p.set(v)
                }
            });
        });
        unsafe { System.alloc(l) }
    }
    unsafe fn dealloc(&self, p: *mut u8, l: Layout) {
        let _ = CUR.try_with(|c| c.set(c.get() - l.size() as isize));
        unsafe { System.dealloc(p, l) }
    }
    unsafe fn realloc(&self, p: *mut u8, l: Layout, new: usize) -> *mut u8 {
        let _ = CUR.try_with(|c| {
            let v = c.get() + new as isize - l.size() as isize;
            c.set(v);
            let _ = PEAK.try_with(|p| {
                if v > p.get() {
                    p.set(v)
                }
            });
        });
        unsafe { System.realloc(p, l, new) }
    }
}

fn alloc_reset() {
    CUR.with(|c| c.set(0));
    PEAK.with(|p| p.set(0));
}
fn alloc_peak() -> usize {
    PEAK.with(|p| p.get().max(0) as usize)
}

pub fn install_panic_hook() {
    std::panic::set_hook(Box::new(|info| {
        let loc = info.location().map(|l| format!("{}:{}", l.file(), l.line())).unwrap_or_default();
        let msg = if let Some(s) = info.payload().downcast_ref::<&str>() {
            s.to_string()
        } else if let Some(s) = info.payload().downcast_ref::<String>() {
            s.clone()
        } else {
            "<non-string panic>".to_string()
        };
        LAST_PANIC.with(|p| *p.borrow_mut() = Some(format!("{msg} @ {loc}")));
    }));
}

fn guarded<T>(f: impl FnOnce() -> T) -> Result<T, String> {
    match catch_unwind(AssertUnwindSafe(f)) {
        Ok(v) => Ok(v),
        Err(_) => Err(LAST_PANIC.with(|p| p.borrow_mut().take()).unwrap_or_else(|| "<panic>".into())),
    }
}

// ------------------------------------------------------------------ value conversion (no serde)

/// Conversion between the model's values and the generated types. Implemented here for the
/// primitive field types and containers; the orchestrator emits one field-by-field impl per
/// generated struct / enum (checked by rustc against the generated API).
pub trait Conv: Sized {
    fn from_val(v: &Val) -> Result<Self, String>;
    fn to_val(&self) -> Val;
}

macro_rules! conv_int {
    ($t:ty) => {
        impl Conv for $t {
            fn from_val(v: &Val) -> Result<Self, String> {
                match v {
                    Val::Int(x) => <$t>::try_from(*x).map_err(|_| format!("{} does not fit {}", x, stringify!($t))),
                    other => Err(format!("expected an integer, got {other:?}")),
                }
            }
            fn to_val(&self) -> Val {
                Val::Int(*self as u64)
            }
        }
    };
}
conv_int!(u8);
conv_int!(u16);
conv_int!(u32);
conv_int!(u64);

impl<T: Conv> Conv for Vec<T> {
    fn from_val(v: &Val) -> Result<Self, String> {
        match v {
            Val::Arr(a) => a.iter().map(T::from_val).collect(),
            Val::Bytes(b) => b.iter().map(|x| T::from_val(&Val::Int(*x as u64))).collect(),
            other => Err(format!("expected an array, got {other:?}")),
        }
    }
    fn to_val(&self) -> Val {
        Val::Arr(self.iter().map(|x| x.to_val()).collect())
    }
}

impl<T: Conv, const N: usize> Conv for [T; N] {
    fn from_val(v: &Val) -> Result<Self, String> {
        let items: Vec<T> = Vec::<T>::from_val(v)?;
        items.try_into().map_err(|_| format!("expected exactly {N} elements"))
    }
    fn to_val(&self) -> Val {
        Val::Arr(self.iter().map(|x| x.to_val()).collect())
    }
}

impl<T: Conv> Conv for Option<T> {
    fn from_val(v: &Val) -> Result<Self, String> {
        match v {
            Val::Opt(None) => Ok(None),
            Val::Opt(Some(x)) => Ok(Some(T::from_val(x)?)),
            other => Err(format!("expected an optional, got {other:?}")),
        }
    }
    fn to_val(&self) -> Val {
        Val::Opt(self.as_ref().map(|x| Box::new(x.to_val())))
    }
}

pub fn rec(v: &Val) -> Result<&BTreeMap<String, Val>, String> {
    match v {
        Val::Rec(m) => Ok(m),
        other => Err(format!("expected a record, got {other:?}")),
    }
}

pub fn get<'a>(r: &'a BTreeMap<String, Val>, k: &str) -> Result<&'a Val, String> {
    r.get(k).ok_or_else(|| format!("missing field {k}"))
}

pub fn payload_from(r: &BTreeMap<String, Val>) -> Result<Vec<u8>, String> {
    match r.get("payload") {
        Some(Val::Bytes(b)) => Ok(b.clone()),
        Some(Val::Arr(a)) => a.iter().map(|x| u8::from_val(x)).collect(),
        other => Err(format!("bad payload {other:?}")),
    }
}

// ------------------------------------------------------------------ outcomes

#[derive(Debug, Clone, Copy, PartialEq, Eq, Hash, PartialOrd, Ord)]
pub enum DecKind {
    Unwrap,
    Fixed,
    Length,
    ArraySize,
    Enum,
    Constraint,
    Trailing,
    TrailingInArray,
}

pub fn dec_kind(e: &DecodeError) -> DecKind {
    match e {
        DecodeError::UnwrapError => DecKind::Unwrap,
        DecodeError::FixedValueError { .. } => DecKind::Fixed,
        DecodeError::LengthError { .. } => DecKind::Length,
        DecodeError::ArraySizeError { .. } => DecKind::ArraySize,
        DecodeError::EnumValueError { .. } => DecKind::Enum,
        DecodeError::ConstraintValueError { .. } => DecKind::Constraint,
        DecodeError::TrailingBytesError => DecKind::Trailing,
        DecodeError::TrailingBytesInArray { .. } => DecKind::TrailingInArray,
    }
}

#[derive(Debug, Clone, Copy, PartialEq, Eq, Hash, PartialOrd, Ord)]
pub enum EncKind {
    SizeOverflow,
    CountOverflow,
    InvalidScalarValue,
    InvalidArrayElementSize,
    InconsistentConditionValue,
}

pub fn enc_kind(e: &EncodeError) -> EncKind {
    match e {
        EncodeError::SizeOverflow { .. } => EncKind::SizeOverflow,
        EncodeError::CountOverflow { .. } => EncKind::CountOverflow,
        EncodeError::InvalidScalarValue { .. } => EncKind::InvalidScalarValue,
        EncodeError::InvalidArrayElementSize { .. } => EncKind::InvalidArrayElementSize,
        EncodeError::InconsistentConditionValue { .. } => EncKind::InconsistentConditionValue,
    }
}

#[derive(Debug, Clone, PartialEq, Eq)]
pub enum DecOutcome {
    /// decode() returned Ok with this many bytes consumed
    Ok { consumed: usize },
    Err(DecKind),
    Panic(String),
}

#[derive(Debug, Clone)]
pub struct DecCheck {
    pub outcome: DecOutcome,
    /// decode_full verdict: Ok / Err kind (None when decode panicked)
    pub full: Option<Result<(), DecKind>>,
    /// violations of the safety clauses (C01) found on this input
    pub safety: Vec<&'static str>,
    /// violations of the Packet trait laws (C18)
    pub laws: Vec<&'static str>,
    pub peak_alloc: usize,
}

pub fn decode_check<T: Packet + PartialEq + Debug>(b: &[u8]) -> DecCheck {
    let mut safety = vec![];
    let mut laws = vec![];
    alloc_reset();
    let r1 = guarded(|| T::decode(b));
    let peak = alloc_peak();
    let r1 = match r1 {
        Err(p) => {
            return DecCheck { outcome: DecOutcome::Panic(format!("decode: {p}")), full: None, safety, laws, peak_alloc: peak }
        }
        Ok(r) => r,
    };
    let r2 = match guarded(|| T::decode_full(b)) {
        Err(p) => {
            return DecCheck { outcome: DecOutcome::Panic(format!("decode_full: {p}")), full: None, safety, laws, peak_alloc: peak }
        }
        Ok(r) => r,
    };
    let mut s: &[u8] = b;
    let r3 = match guarded(|| T::decode_mut(&mut s)) {
        Err(p) => {
            return DecCheck { outcome: DecOutcome::Panic(format!("decode_mut: {p}")), full: None, safety, laws, peak_alloc: peak }
        }
        Ok(r) => r,
    };
    if peak > (1 << 20) + 64 * b.len() {
        safety.push("allocation-out-of-proportion");
    }
    let outcome;
    match &r1 {
        Ok((v, rest)) => {
            let consumed = b.len().wrapping_sub(rest.len());
            outcome = DecOutcome::Ok { consumed };
            // remainder is a suffix of the input, by address and length
            let is_suffix = rest.len() <= b.len() && std::ptr::eq(rest.as_ptr(), b[b.len() - rest.len()..].as_ptr());
            if !is_suffix {
                safety.push("remainder-is-not-a-suffix-of-the-input");
            }
            // decode_full law
            match (&r2, rest.is_empty()) {
                (Ok(v2), true) => {
                    if v2 != v {
                        laws.push("decode_full-value-differs-from-decode");
                    }
                }
                (Err(DecodeError::TrailingBytesError), false) => {}
                (Ok(_), false) => laws.push("decode_full-accepts-trailing-bytes"),
                (Err(_), true) => laws.push("decode_full-rejects-what-decode-consumed-entirely"),
                (Err(_), false) => laws.push("decode_full-error-is-not-TrailingBytesError"),
            }
            // decode_mut law
            match &r3 {
                Ok(v3) => {
                    if v3 != v {
                        laws.push("decode_mut-value-differs-from-decode");
                    }
                    if !(s.len() == rest.len() && std::ptr::eq(s.as_ptr(), rest.as_ptr())) {
                        laws.push("decode_mut-does-not-advance-to-decode-remainder");
                    }
                }
                Err(_) => laws.push("decode_mut-fails-where-decode-succeeds"),
            }
        }
        Err(e) => {
            outcome = DecOutcome::Err(dec_kind(e));
            match &r2 {
                Err(e2) if e2 == e => {}
                Err(_) => laws.push("decode_full-error-differs-from-decode-error"),
                Ok(_) => laws.push("decode_full-succeeds-where-decode-fails"),
            }
            match &r3 {
                Err(e3) => {
                    if e3 != e {
                        laws.push("decode_mut-error-differs-from-decode-error");
                    }
                    if !(s.len() == b.len() && std::ptr::eq(s.as_ptr(), b.as_ptr())) {
                        safety.push("decode_mut-changed-the-slice-on-failure");
                        laws.push("decode_mut-changed-the-slice-on-failure");
                    }
                }
                Ok(_) => laws.push("decode_mut-succeeds-where-decode-fails"),
            }
        }
    }
    let full = Some(match &r2 {
        Ok(_) => Ok(()),
        Err(e) => Err(dec_kind(e)),
    });
    DecCheck { outcome, full, safety, laws, peak_alloc: peak }
}

pub fn decode_full_value<T: Packet + Conv>(b: &[u8]) -> Result<Val, Result<DecKind, String>> {
    match guarded(|| T::decode_full(b)) {
        Err(p) => Err(Err(p)),
        Ok(Err(e)) => Err(Ok(dec_kind(&e))),
        Ok(Ok(v)) => Ok(v.to_val()),
    }
}

pub fn decode_value<T: Packet + Conv>(b: &[u8]) -> Result<(Val, usize), Result<DecKind, String>> {
    match guarded(|| T::decode(b)) {
        Err(p) => Err(Err(p)),
        Ok(Err(e)) => Err(Ok(dec_kind(&e))),
        Ok(Ok((v, rest))) => Ok((v.to_val(), b.len() - rest.len())),
    }
}

#[derive(Debug, Clone, PartialEq, Eq)]
pub enum EncOutcome {
    /// the JSON value does not deserialize into the generated type (e.g. an undeclared enum value)
    NotConstructible(String),
    Ok(Vec<u8>),
    Err(EncKind),
    Panic(String),
}

#[derive(Debug, Clone)]
pub struct EncCheck {
    pub outcome: EncOutcome,
    pub encoded_len: Option<usize>,
    pub laws: Vec<&'static str>,
    /// the value converted back (what the generated type actually holds)
    pub reserialized: Option<Val>,
}

const MARK: [u8; 3] = [0xAA, 0x55, 0xC3];

pub fn encode_check<T: Packet + Conv>(v: &Val) -> EncCheck {
    let mut laws = vec![];
    let t: T = match T::from_val(v) {
        Ok(t) => t,
        Err(e) => {
            return EncCheck { outcome: EncOutcome::NotConstructible(e), encoded_len: None, laws, reserialized: None }
        }
    };
    let reser = Some(t.to_val());
    let r1 = match guarded(|| t.encode_to_vec()) {
        Err(p) => {
            return EncCheck { outcome: EncOutcome::Panic(format!("encode_to_vec: {p}")), encoded_len: None, laws, reserialized: reser }
        }
        Ok(r) => r,
    };
    let len = match guarded(|| t.encoded_len()) {
        Err(p) => {
            return EncCheck { outcome: EncOutcome::Panic(format!("encoded_len: {p}")), encoded_len: None, laws, reserialized: reser }
        }
        Ok(l) => l,
    };
    let r2 = match guarded(|| t.encode_to_bytes()) {
        Err(p) => {
            return EncCheck { outcome: EncOutcome::Panic(format!("encode_to_bytes: {p}")), encoded_len: Some(len), laws, reserialized: reser }
        }
        Ok(r) => r,
    };
    let mut pre: Vec<u8> = MARK.to_vec();
    let r3 = match guarded(|| t.encode(&mut pre)) {
        Err(p) => {
            return EncCheck { outcome: EncOutcome::Panic(format!("encode(Vec): {p}")), encoded_len: Some(len), laws, reserialized: reser }
        }
        Ok(r) => r,
    };
    let mut pre2 = bytes::BytesMut::from(&MARK[..]);
    let r4 = match guarded(|| t.encode(&mut pre2)) {
        Err(p) => {
            return EncCheck { outcome: EncOutcome::Panic(format!("encode(BytesMut): {p}")), encoded_len: Some(len), laws, reserialized: reser }
        }
        Ok(r) => r,
    };
    let outcome = match &r1 {
        Ok(bytes) => {
            match &r2 {
                Ok(b2) if b2[..] == bytes[..] => {}
                Ok(_) => laws.push("encode_to_bytes-differs-from-encode_to_vec"),
                Err(_) => laws.push("encode_to_bytes-fails-where-encode_to_vec-succeeds"),
            }
            match &r3 {
                Ok(()) => {
                    if pre.len() < 3 || pre[..3] != MARK {
                        laws.push("encode-disturbs-existing-buffer-content");
                    } else if pre[3..] != bytes[..] {
                        laws.push("encode-into-nonempty-Vec-appends-different-bytes");
                    }
                }
                Err(_) => laws.push("encode-into-Vec-fails-where-encode_to_vec-succeeds"),
            }
            match &r4 {
                Ok(()) => {
                    if pre2.len() < 3 || pre2[..3] != MARK {
                        laws.push("encode-disturbs-existing-buffer-content");
                    } else if pre2[3..] != bytes[..] {
                        laws.push("encode-into-nonempty-BytesMut-appends-different-bytes");
                    }
                }
                Err(_) => laws.push("encode-into-BytesMut-fails-where-encode_to_vec-succeeds"),
            }
            EncOutcome::Ok(bytes.clone())
        }
        Err(e) => {
            match &r2 {
                Err(e2) if e2 == e => {}
                _ => laws.push("encode_to_bytes-verdict-differs-from-encode_to_vec-error"),
            }
            match &r3 {
                Err(e3) if e3 == e => {}
                _ => laws.push("encode-into-Vec-verdict-differs-from-encode_to_vec-error"),
            }
            match &r4 {
                Err(e4) if e4 == e => {}
                _ => laws.push("encode-into-BytesMut-verdict-differs-from-encode_to_vec-error"),
            }
            EncOutcome::Err(enc_kind(e))
        }
    };
    EncCheck { outcome, encoded_len: Some(len), laws, reserialized: reser }
}

#[derive(Debug, Clone, PartialEq)]
pub enum ConvOutcome {
    NotConstructible(String),
    Ok(Val),
    DecErr(DecKind),
    OtherErr(String),
    Panic(String),
}

/// `Child::try_from(&parent)`
pub fn conv_to_child<P, C>(v: &Val) -> ConvOutcome
where
    P: Conv,
    C: Conv + for<'a> TryFrom<&'a P, Error = DecodeError>,
{
    let p: P = match P::from_val(v) {
        Ok(p) => p,
        Err(e) => return ConvOutcome::NotConstructible(e),
    };
    match guarded(|| C::try_from(&p)) {
        Err(m) => ConvOutcome::Panic(m),
        Ok(Err(e)) => ConvOutcome::DecErr(dec_kind(&e)),
        Ok(Ok(c)) => ConvOutcome::Ok(c.to_val()),
    }
}

/// `Parent::try_from(&child)` (also covers the infallible `From` of payload-less parents)
pub fn conv_to_parent<C, P, E>(v: &Val) -> ConvOutcome
where
    C: Conv,
    E: Debug,
    P: Conv + for<'a> TryFrom<&'a C, Error = E>,
{
    let c: C = match C::from_val(v) {
        Ok(c) => c,
        Err(e) => return ConvOutcome::NotConstructible(e),
    };
    match guarded(|| P::try_from(&c)) {
        Err(m) => ConvOutcome::Panic(m),
        Ok(Err(e)) => ConvOutcome::OtherErr(format!("{e:?}")),
        Ok(Ok(p)) => ConvOutcome::Ok(p.to_val()),
    }
}

/// `parent.specialize()`; the child enum is converted by the generated closure `show` into
/// Rec{"<Child>": value} or Rec{} for None
pub fn spec_with<P: Conv, C>(v: &Val, f: fn(&P) -> Result<C, DecodeError>, show: fn(&C) -> Val) -> ConvOutcome {
    let p: P = match P::from_val(v) {
        Ok(p) => p,
        Err(e) => return ConvOutcome::NotConstructible(e),
    };
    match guarded(|| f(&p)) {
        Err(m) => ConvOutcome::Panic(m),
        Ok(Err(e)) => ConvOutcome::DecErr(dec_kind(&e)),
        Ok(Ok(c)) => ConvOutcome::Ok(show(&c)),
    }
}

#[derive(Debug, Clone, PartialEq)]
pub enum EnumOutcome {
    /// the integer does not fit the backing type
    OutOfBacking,
    Rejected,
    /// Debug rendering of the variant, value converted back, widening conversions
    Accepted { debug: String, back: u64, wide: Vec<(&'static str, i128)> },
    Panic(String),
}

// ------------------------------------------------------------------ operation tables

pub struct TypeOps {
    pub name: &'static str,
    /// "packet" | "struct" | "custom"
    pub kind: &'static str,
    pub decode_check: fn(&[u8]) -> DecCheck,
    pub decode_full_value: Option<fn(&[u8]) -> Result<Val, Result<DecKind, String>>>,
    pub decode_value: Option<fn(&[u8]) -> Result<(Val, usize), Result<DecKind, String>>>,
    pub encode_check: Option<fn(&Val) -> EncCheck>,
    pub specialize: Option<fn(&Val) -> ConvOutcome>,
}

pub struct ConvOps {
    pub parent: &'static str,
    pub child: &'static str,
    pub to_child: fn(&Val) -> ConvOutcome,
    pub to_parent: fn(&Val) -> ConvOutcome,
}

pub struct EnumOps {
    pub name: &'static str,
    pub backing_bits: u32,
    pub try_from: fn(u64) -> EnumOutcome,
    pub default_debug: fn() -> String,
}

pub struct Module {
    pub state: usize,
    pub big_endian: bool,
    pub types: Vec<TypeOps>,
    pub convs: Vec<ConvOps>,
    pub enums: Vec<EnumOps>,
}

#[macro_export]
macro_rules! type_ops {
    ($t:ty, $name:expr, $kind:expr) => {
        $crate::TypeOps {
            name: $name,
            kind: $kind,
            decode_check: $crate::decode_check::<$t>,
            decode_full_value: Some($crate::decode_full_value::<$t>),
            decode_value: Some($crate::decode_value::<$t>),
            encode_check: Some($crate::encode_check::<$t>),
            specialize: None,
        }
    };
    ($t:ty, $name:expr, $kind:expr, $show:expr) => {
        $crate::TypeOps {
            name: $name,
            kind: $kind,
            decode_check: $crate::decode_check::<$t>,
            decode_full_value: Some($crate::decode_full_value::<$t>),
            decode_value: Some($crate::decode_value::<$t>),
            encode_check: Some($crate::encode_check::<$t>),
            specialize: Some(|v: &$crate::Val| $crate::spec_with::<$t, _>(v, |p: &$t| p.specialize(), $show)),
        }
    };
}

#[macro_export]
macro_rules! conv_ops {
    ($p:ty, $pn:expr, $c:ty, $cn:expr) => {
        $crate::ConvOps {
            parent: $pn,
            child: $cn,
            to_child: $crate::conv_to_child::<$p, $c>,
            to_parent: $crate::conv_to_parent::<$c, $p, _>,
        }
    };
}

#[macro_export]
macro_rules! enum_ops {
    ($e:ty, $name:expr, $back:ty, $bits:expr, [$($w:ty),*]) => {
        $crate::EnumOps {
            name: $name,
            backing_bits: $bits,
            try_from: |x: u64| -> $crate::EnumOutcome {
                let y: $back = match <$back>::try_from(x) {
                    Ok(y) => y,
                    Err(_) => return $crate::EnumOutcome::OutOfBacking,
                };
                let r = std::panic::catch_unwind(|| match <$e>::try_from(y) {
                    Err(_) => $crate::EnumOutcome::Rejected,
                    Ok(e) => {
                        let back: $back = <$back>::from(e);
                        let by_ref: $back = <$back>::from(&e);
                        let mut wide: Vec<(&'static str, i128)> = vec![("by-ref", by_ref as i128)];
                        $( wide.push((stringify!($w), <$w>::from(e) as i128)); )*
                        $crate::EnumOutcome::Accepted { debug: format!("{e:?}"), back: back as u64, wide }
                    }
                });
                match r {
                    Ok(o) => o,
                    Err(_) => $crate::EnumOutcome::Panic("enum conversion panicked".into()),
                }
            },
            default_debug: || format!("{:?}", <$e>::default()),
        }
    };
}

