//! In-process oracles of the Rust engine. One harness process = one shard of modules; the
//! property to check is selected on the command line; the result is one JSON document on stdout.

use crate::*;
use pdlmc_core::classes;
use pdlmc_core::ir::*;
use pdlmc_core::model::{self, EncFault, Fault, Model, Val};
use pdlmc_core::rules;
use pdlmc_core::values::{self, Budget, ValueGen};
use serde_json::json;
use std::collections::{BTreeMap, BTreeSet};
use std::sync::atomic::{AtomicU64, Ordering};

static PROGRESS: AtomicU64 = AtomicU64::new(0);

#[derive(serde::Deserialize)]
pub struct StateIn {
    pub id: usize,
    pub family: String,
    pub depth: usize,
    pub desc: Desc,
}

pub struct Out {
    pub violations: BTreeMap<String, (usize, serde_json::Value)>,
    pub counters: BTreeMap<String, u64>,
    pub samples: Vec<serde_json::Value>,
    /// C07: raw observations (no verdicts), one object per module
    pub observations: Vec<serde_json::Value>,
}

impl Out {
    fn inc(&mut self, k: &str) {
        *self.counters.entry(k.to_string()).or_default() += 1;
    }
    fn add(&mut self, k: &str, n: u64) {
        *self.counters.entry(k.to_string()).or_default() += n;
    }
    fn viol(&mut self, sig: String, detail: impl FnOnce() -> serde_json::Value) {
        match self.violations.get_mut(&sig) {
            Some(e) => e.0 += 1,
            None => {
                self.violations.insert(sig, (1, detail()));
            }
        }
    }
}

fn norm_msg(p: &str) -> String {
    let (msg, loc) = match p.rsplit_once(" @ ") {
        Some((m, l)) => (m, l),
        None => (p, ""),
    };
    let file = loc.rsplit_once(':').map(|x| x.0).unwrap_or(loc);
    // generated modules are gen/m<N>_<e>.rs: keep "generated"
    let file = if file.contains("/gen/m") || file.starts_with("gen/m") || file.contains("gen/m") { "generated-code" } else { file.rsplit('/').next().unwrap_or(file) };
    let mut m = String::new();
    for ch in msg.chars().take(120) {
        match ch {
            '0'..='9' => {
                if !m.ends_with('#') {
                    m.push('#')
                }
            }
            '\n' => m.push(' '),
            _ => m.push(ch),
        }
    }
    format!("{m} @{file}")
}

struct Ctx<'a> {
    st: &'a StateIn,
    inl: &'a Desc,
    module: &'a Module,
    tier_thorough: bool,
    /// the types this module is the first to contain (identical types elsewhere are skipped)
    owned: &'a [String],
}

impl<'a> Ctx<'a> {
    fn base(&self, ty: &str) -> serde_json::Value {
        json!({
            "state": self.st.id, "family": self.st.family, "depth": self.st.depth,
            "endianness": if self.module.big_endian { "big" } else { "little" },
            "type": ty,
            "constructs": construct_classes(self.inl, ty),
            "source": pdlmc_core::render::canonical(&self.st.desc.with_endian(if self.module.big_endian { Endian::Big } else { Endian::Little })),
        })
    }
}

use pdlmc_core::classes::construct_classes;

/// the uncommon construct combinations that known findings hinge on
fn rare_constructs(cls: &[&'static str]) -> Vec<&'static str> {
    let has = |s: &str| cls.iter().any(|c| *c == s);
    let mut r = vec![];
    if has("padded-array") && has("sized-array") && has("struct-elements") {
        r.push("padded-sized-array-of-structs");
    }
    if has("elementsize-array") {
        r.push("elementsize-array");
    }
    if has("custom-field") {
        r.push("custom-field");
    }
    r
}

fn budget(thorough: bool) -> Budget {
    if thorough {
        Budget { max_values: 3000, pairs: true, nested_alts: 5, max_array_len: 70000 }
    } else {
        Budget { max_values: 120, pairs: true, nested_alts: 3, max_array_len: 300 }
    }
}

/// The byte strings of DESIGN.md 3.4 for one type.
fn for_inputs(ctx: &Ctx, m: &Model, ty: &str, light: bool, f: &mut dyn FnMut(&[u8])) -> u64 {
    let mut n = 0u64;
    let mut g = |b: &[u8]| {
        n += 1;
        PROGRESS.fetch_add(1, Ordering::Relaxed);
        f(b)
    };
    // (ii) all strings over the 8-symbol alphabet
    let blen = match (ctx.tier_thorough, light) {
        (false, true) => 3,
        (false, false) => 3,
        (true, true) => 4,
        (true, false) => 5,
    };
    values::for_all_strings(&values::B_ALPHABET, blen, &mut g);
    // (iii) mutants of the reference encodings of the explored values
    let encodable = model_can_encode(ctx.inl, ty);
    let mut min_len = usize::MAX;
    if encodable {
        let vg = ValueGen { m, budget: budget(ctx.tier_thorough) };
        let vals = vg.values(ty);
        let cap = if light { 12 } else { 60 };
        for v in vals.ok.iter().take(if ctx.tier_thorough { cap * 8 } else { cap }) {
            if let Ok(e) = m.encode(ty, v) {
                min_len = min_len.min(e.bytes.len());
                if e.bytes.len() <= 4096 {
                    g(&e.bytes);
                    values::for_all_mutants(&e, ctx.module.big_endian, &mut g);
                }
            }
        }
    }
    // (i) all strings over the full alphabet: length <= 2 for small types in thorough, length
    // <= 1 otherwise
    let full: Vec<u8> = (0..=255u8).collect();
    if ctx.tier_thorough && (min_len <= 2 || !encodable) {
        values::for_all_strings(&full, 2, &mut g);
    } else {
        values::for_all_strings(&full, 1, &mut g);
    }
    n
}

pub fn model_can_encode(inl: &Desc, ty: &str) -> bool {
    fn ok_type(d: &Desc, t: &str, depth: usize) -> bool {
        if depth > 6 {
            return false;
        }
        match d.get(t).map(|x| &x.kind) {
            Some(DeclKind::Enum { .. }) => true,
            Some(DeclKind::Custom { width: Some(w), .. }) => w % 8 == 0 && *w <= 64,
            Some(DeclKind::Struct { .. }) | Some(DeclKind::Packet { .. }) => d.ancestry(t).iter().all(|a| {
                a.fields().iter().all(|f| match &f.kind {
                    FieldKind::Typedef { type_id, .. } => ok_type(d, type_id, depth + 1),
                    FieldKind::Array { elem: Elem::Type(t2), .. } => ok_type(d, t2, depth + 1),
                    FieldKind::Checksum { .. } => false,
                    _ => true,
                })
            }),
            _ => false,
        }
    }
    ok_type(inl, ty, 0)
}

fn hexs(b: &[u8]) -> String {
    if b.len() > 96 {
        format!("{}..(len {})", model::hex(&b[..96]), b.len())
    } else {
        model::hex(b)
    }
}

// ------------------------------------------------------------------ known-finding triggers (decode)

/// Trigger predicates for decoder panics, evaluated on the model for one (type, input).
fn decode_triggers(ctx: &Ctx, m: &Model, ty: &str, b: &[u8]) -> Vec<&'static str> {
    let mut t = vec![];
    let cls = construct_classes(ctx.inl, ty);
    let has = |s: &str| cls.iter().any(|c| *c == s);
    // an input that (per the model) ends inside or right before a present optional scalar/enum
    if has("optional-scalar") || has("optional-enum") {
        t.push("type-has-optional-scalar-or-enum");
    }
    if has("custom-field") || has("custom-elements") {
        t.push("type-has-custom-field");
    }
    if has("elementsize-array") {
        t.push("type-has-elementsize-array");
    }
    if has("counted-array") {
        t.push("type-has-counted-array");
    }
    if has("struct-elements") {
        // zero-size element structs
        for d in &ctx.inl.decls {
            if d.is_struct() && pdlmc_core::sizes::total_size(ctx.inl, &d.id) == pdlmc_core::sizes::Size::Static(0) {
                t.push("zero-size-struct");
                break;
            }
        }
    }
    let _ = (m, b);
    t
}

// ------------------------------------------------------------------ C01 / C18 (decode side)

fn first_time(ctx: &Ctx, ty: &str, out: &mut Out) -> bool {
    let owned = ctx.owned.iter().any(|t| t == ty);
    if !owned {
        out.inc("types-identical-to-one-checked-in-another-module");
    }
    owned
}

fn run_decode_checks(ctx: &Ctx, out: &mut Out, prop: &str) {
    let m = Model::new(ctx.inl);
    for t in &ctx.module.types {
        if !first_time(ctx, t.name, out) {
            continue;
        }
        let cls = construct_classes(ctx.inl, t.name);
        out.inc("types");
        let mut ok_parent_values: Vec<Val> = vec![];
        let has_children = ctx.inl.children(t.name).next().is_some();
        let mut outcomes: BTreeMap<&'static str, u64> = BTreeMap::new();
        let n = for_inputs(ctx, &m, t.name, false, &mut |b: &[u8]| {
            let r = (t.decode_check)(b);
            match &r.outcome {
                DecOutcome::Ok { .. } => *outcomes.entry("ok").or_default() += 1,
                DecOutcome::Err(_) => *outcomes.entry("err").or_default() += 1,
                DecOutcome::Panic(_) => *outcomes.entry("panic").or_default() += 1,
            }
            if prop == "C01" {
                if let DecOutcome::Panic(p) = &r.outcome {
                    // where does the reference stop on this input?
                    let risky: Vec<&str> = cls.iter().copied().filter(|c| ["custom-field", "elementsize-array"].contains(c)).collect();
                    let lctx = if classes::deterministic(ctx.inl, t.name).is_err() {
                        "type-not-deterministically-parseable"
                    } else if model_can_encode(ctx.inl, t.name) {
                        match pdlmc_core_guard(|| m.decode(t.name, b)) {
                            Some(Err(f)) if f.contains(&Fault::Length) => m.length_ctx.get(),
                            Some(Err(_)) => "reference-rejects-otherwise",
                            Some(Ok(_)) => "reference-accepts",
                            None => "model-failed",
                        }
                    } else {
                        "no-model"
                    };
                    out.viol(format!("decode-panic msg={} reference-length-fault-at={lctx} risky-constructs={:?}", norm_msg(p), risky), || {
                        let mut d = ctx.base(t.name);
                        d["input"] = json!(hexs(b));
                        d["panic"] = json!(p);
                        d["classes"] = json!(cls);
                        d
                    });
                }
                for s in &r.safety {
                    out.viol(format!("{s}"), || {
                        let mut d = ctx.base(t.name);
                        d["input"] = json!(hexs(b));
                        d["peak_alloc"] = json!(r.peak_alloc);
                        d
                    });
                }
                // specialize and parent->child conversions on every successfully decoded parent
                if has_children && matches!(r.outcome, DecOutcome::Ok { .. }) && ok_parent_values.len() < 4000 {
                    if let Some(dv) = t.decode_value {
                        if let Ok((v, _)) = dv(b) {
                            ok_parent_values.push(v);
                        }
                    }
                }
            } else {
                for l in &r.laws {
                    out.viol(format!("{l}"), || {
                        let mut d = ctx.base(t.name);
                        d["input"] = json!(hexs(b));
                        d
                    });
                }
            }
        });
        out.add("decode-inputs", n);
        for (k, v) in outcomes {
            out.add(&format!("outcome:decode-{k}"), v);
        }
        if prop == "C01" && has_children {
            ok_parent_values.sort();
            ok_parent_values.dedup();
            for pv in &ok_parent_values {
                if let Some(sp) = t.specialize {
                    out.inc("specialize-calls");
                    if let ConvOutcome::Panic(p) = sp(pv) {
                        out.viol(format!("specialize-panic msg={}", norm_msg(&p)), || {
                            let mut d = ctx.base(t.name);
                            d["parent_value"] = pv.to_json();
                            d["panic"] = json!(p);
                            d
                        });
                    }
                }
                for cv in ctx.module.convs.iter().filter(|c| c.parent == t.name) {
                    out.inc("try_from-calls");
                    if let ConvOutcome::Panic(p) = (cv.to_child)(pv) {
                        out.viol(format!("parent-to-child-panic msg={}", norm_msg(&p)), || {
                            let mut d = ctx.base(t.name);
                            d["parent_value"] = pv.to_json();
                            d["child"] = json!(cv.child);
                            d["panic"] = json!(p);
                            d
                        });
                    }
                }
            }
        }
        if out.samples.len() < 3 && ctx.st.depth >= 2 {
            out.samples.push(json!({"type": t.name, "inputs": n, "source": ctx.base(t.name)["source"]}));
        }
    }
}

// ------------------------------------------------------------------ values: C02 C03 C05 C17 C18 (encode side)

fn enc_fault_kinds(f: EncFault) -> Vec<EncKind> {
    match f {
        EncFault::ScalarRange => vec![EncKind::InvalidScalarValue],
        EncFault::SizeOverflow => vec![EncKind::SizeOverflow],
        EncFault::CountOverflow => vec![EncKind::CountOverflow],
        EncFault::ElemSize => vec![EncKind::InvalidArrayElementSize],
        EncFault::Inconsistent => vec![EncKind::InconsistentConditionValue],
    }
}

fn json_eq(a: &Val, b: &Val) -> bool {
    a == b
}

fn run_value_checks(ctx: &Ctx, out: &mut Out, prop: &str, twin: Option<&Module>) {
    let m = Model::new(ctx.inl);
    let twin_desc = ctx.inl.with_endian(if ctx.module.big_endian { Endian::Little } else { Endian::Big });
    let twin_model = Model::new(&twin_desc);
    for t in &ctx.module.types {
        if t.kind == "custom" || !model_can_encode(ctx.inl, t.name) {
            out.inc("types-skipped-not-encodable-by-model");
            continue;
        }
        let enc = match t.encode_check {
            Some(e) => e,
            None => continue,
        };
        if prop != "C17" && !first_time(ctx, t.name, out) {
            continue;
        }
        let cls = construct_classes(ctx.inl, t.name);
        out.inc("types");
        let det = classes::deterministic(ctx.inl, t.name);
        let unamb = classes::unambiguous(&m, t.name);
        let vg = ValueGen { m: &m, budget: budget(ctx.tier_thorough) };
        let vals = vg.values(t.name);
        if vals.capped {
            out.inc("types-with-capped-value-set");
        }
        let mut all: Vec<(Val, bool)> = vals.ok.iter().cloned().map(|v| (v, true)).collect();
        if prop == "C03" {
            if let Some(av) = vg.all_values(t.name, 16) {
                out.inc("types-with-all-values");
                all = av.into_iter().map(|v| (v, true)).collect();
            }
        }
        if prop == "C05" {
            all.extend(vals.bad.iter().cloned().map(|v| (v, false)));
        }
        for (v, _in_range) in &all {
            PROGRESS.fetch_add(1, Ordering::Relaxed);
            out.inc("values");
            let j = v.to_json();
            let expected = m.encode(t.name, v);
            let r = enc(v);
            match (&r.outcome, &expected) {
                (EncOutcome::Ok(_), Ok(_)) => out.inc("outcome:encode-ok"),
                (EncOutcome::Err(_), _) => out.inc("outcome:encode-err"),
                (EncOutcome::NotConstructible(_), _) => out.inc("outcome:not-constructible"),
                _ => out.inc("outcome:encode-other"),
            }
            if prop == "C18" {
                for l in &r.laws {
                    out.viol(format!("{l}"), || {
                        let mut d = ctx.base(t.name);
                        d["value"] = j.clone();
                        d
                    });
                }
                continue;
            }
            if let EncOutcome::NotConstructible(msg) = &r.outcome {
                // values the generated type cannot hold are not values of the type: nothing to
                // check (this is how undeclared enum values are kept out, C05)
                let _ = msg;
                continue;
            }
            match prop {
                "C05" => {
                    if let EncOutcome::Panic(p) = &r.outcome {
                        out.viol(format!("encode-panic msg={} model={}", norm_msg(p), match &expected { Ok(_) => "encodable".to_string(), Err(f) => format!("{:?}@{}", f, m.enc_ctx.get()) }), || {
                            let mut d = ctx.base(t.name);
                            d["value"] = j.clone();
                            d["panic"] = json!(p);
                            d
                        });
                        continue;
                    }
                    match (&expected, &r.outcome) {
                        (Err(f), EncOutcome::Ok(bytes)) => {
                            out.viol(format!("unrepresentable-value-encoded model-fault={:?} at={}", f, m.enc_ctx.get()), || {
                                let mut d = ctx.base(t.name);
                                d["value"] = j.clone();
                                d["observed"] = json!(hexs(bytes));
                                d
                            });
                        }
                        (Err(f), EncOutcome::Err(k)) => {
                            // a value can carry several faults: any of them is "the corresponding error"
                            let all = m.encode_faults(t.name, v);
                            let any_ok = all.iter().any(|(g, _)| enc_fault_kinds(*g).contains(k));
                            if !enc_fault_kinds(*f).contains(k) && !any_ok {
                                out.viol(format!("wrong-encode-error model-fault={:?} at={} observed={:?}", f, m.enc_ctx.get(), k), || {
                                    let mut d = ctx.base(t.name);
                                    d["value"] = j.clone();
                                    d
                                });
                            }
                        }
                        (Ok(_), EncOutcome::Err(k)) => {
                            out.viol(format!("representable-value-refused observed={:?}", k), || {
                                let mut d = ctx.base(t.name);
                                d["value"] = j.clone();
                                d
                            });
                        }
                        _ => {}
                    }
                    if let (EncOutcome::Ok(bytes), Some(l)) = (&r.outcome, r.encoded_len) {
                        if bytes.len() != l {
                            out.viol("encoded_len-differs-from-bytes-written".to_string(), || {
                                let mut d = ctx.base(t.name);
                                d["value"] = j.clone();
                                d["encoded_len"] = json!(l);
                                d["written"] = json!(bytes.len());
                                d
                            });
                        }
                    }
                }
                "C03" | "C17" | "C02" => {
                    let exp = match &expected {
                        Ok(e) => e,
                        Err(_) => continue, // not a well-formed value (inconsistent flags, ...)
                    };
                    let bytes = match &r.outcome {
                        EncOutcome::Ok(b) => b,
                        other => {
                            if prop != "C17" {
                                out.viol(format!("well-formed-value-not-encoded observed={}", enc_outcome_class(other)), || {
                                    let mut d = ctx.base(t.name);
                                    d["value"] = j.clone();
                                    d["observed"] = json!(format!("{other:?}"));
                                    d
                                });
                            }
                            continue;
                        }
                    };
                    if prop == "C03" {
                        out.inc("encodings-compared");
                        if *bytes != exp.bytes {
                            // name the first differing chunk
                            let pos = bytes.iter().zip(exp.bytes.iter()).position(|(a, b)| a != b).unwrap_or(bytes.len().min(exp.bytes.len()));
                            let chunk = exp.chunks.iter().find(|c| c.start <= pos && pos < c.start + c.len.max(1)).map(chunk_class).unwrap_or("length");
                            out.viol(format!("encoding-differs-from-reference first-difference-in={chunk}"), || {
                                let mut d = ctx.base(t.name);
                                d["value"] = j.clone();
                                d["expected"] = json!(hexs(&exp.bytes));
                                d["observed"] = json!(hexs(bytes));
                                d
                            });
                        }
                    }
                    if prop == "C17" {
                        // twin module
                        if let Some(tw) = twin {
                            if let Some(tt) = tw.types.iter().find(|x| x.name == t.name) {
                                if let Some(te) = tt.encode_check {
                                    let r2 = te(v);
                                    if let EncOutcome::Ok(b2) = &r2.outcome {
                                        out.inc("twin-encodings-compared");
                                        let swapped = model::swap_chunks(exp);
                                        let _ = &twin_model;
                                        if b2.len() != bytes.len() {
                                            out.viol("twin-encoding-length-differs".to_string(), || {
                                                let mut d = ctx.base(t.name);
                                                d["value"] = j.clone();
                                                d["this"] = json!(hexs(bytes));
                                                d["twin"] = json!(hexs(b2));
                                                d
                                            });
                                        } else {
                                            // apply the chunk map to the *observed* bytes of this
                                            // endianness: the only thing taken from the model is
                                            // the chunk map
                                            let mut sw = bytes.clone();
                                            for c in &exp.chunks {
                                                if matches!(c.kind, model::ChunkKind::Group(_) | model::ChunkKind::Word) && c.start + c.len <= sw.len() {
                                                    sw[c.start..c.start + c.len].reverse();
                                                }
                                            }
                                            let _ = swapped;
                                            if sw != *b2 {
                                                let pos = sw.iter().zip(b2.iter()).position(|(a, b)| a != b).unwrap_or(0);
                                                let chunk = exp.chunks.iter().find(|c| c.start <= pos && pos < c.start + c.len.max(1)).map(chunk_class).unwrap_or("length");
                                                out.viol(format!("twin-encoding-is-not-the-chunkwise-byte-reversal first-difference-in={chunk}"), || {
                                                    let mut d = ctx.base(t.name);
                                                    d["value"] = j.clone();
                                                    d["this"] = json!(hexs(bytes));
                                                    d["twin"] = json!(hexs(b2));
                                                    d["expected_twin"] = json!(hexs(&sw));
                                                    d
                                                });
                                            }
                                        }
                                    }
                                }
                            }
                        }
                    }
                    if prop == "C02" {
                        if det.is_err() {
                            out.inc("values-skipped-type-not-deterministically-parseable");
                            continue;
                        }
                        // the reference itself must be a bijection on this value
                        match m.decode_full(t.name, &exp.bytes) {
                            Ok(back) if back == *v => {}
                            _ => {
                                out.inc("values-skipped-reference-not-bijective");
                                continue;
                            }
                        }
                        out.inc("round-trips");
                        let dv = t.decode_full_value.unwrap();
                        match dv(bytes) {
                            Ok(back) => {
                                let want = r.reserialized.clone().unwrap_or(v.clone());
                                if !json_eq(&back, &want) {
                                    out.viol(format!("round-trip-value-differs rare-constructs={:?}", rare_constructs(&cls)), || {
                                        let mut d = ctx.base(t.name);
                                        d["value"] = want.to_json();
                                        d["bytes"] = json!(hexs(bytes));
                                        d["decoded"] = back.to_json();
                                        d
                                    });
                                }
                            }
                            Err(e) => {
                                out.viol(format!("round-trip-decode-fails error={} rare-constructs={:?}", dec_err_class(&e), rare_constructs(&cls)), || {
                                    let mut d = ctx.base(t.name);
                                    d["value"] = j.clone();
                                    d["bytes"] = json!(hexs(bytes));
                                    d["error"] = json!(format!("{e:?}"));
                                    d
                                });
                            }
                        }
                        // decode as every ancestor and specialize back down
                        if unamb {
                            let chain = ctx.inl.ancestry(t.name);
                            for k in 1..chain.len() {
                                let anc = chain[k];
                                let at = match ctx.module.types.iter().find(|x| x.name == anc.id) {
                                    Some(x) => x,
                                    None => continue,
                                };
                                let mut cur = match (at.decode_full_value.unwrap())(bytes) {
                                    Ok(v) => v,
                                    Err(e) => {
                                        out.viol(format!("ancestor-decode-fails error={}", dec_err_class(&e)), || {
                                            let mut d = ctx.base(t.name);
                                            d["ancestor"] = json!(anc.id);
                                            d["value"] = j.clone();
                                            d["bytes"] = json!(hexs(bytes));
                                            d
                                        });
                                        continue;
                                    }
                                };
                                out.inc("ancestor-round-trips");
                                // walk down: chain[k] -> chain[k-1] -> ... -> chain[0]
                                let mut ok = true;
                                for step in (0..k).rev() {
                                    // the reference must give a single answer for this parent value
                                    if m.specialize_matches(&chain[step + 1].id, &cur).len() != 1 {
                                        out.inc("ancestor-walks-skipped-parent-value-matches-several-children");
                                        ok = false;
                                        break;
                                    }
                                    let parent_t = ctx.module.types.iter().find(|x| x.name == chain[step + 1].id).unwrap();
                                    let sp = match parent_t.specialize {
                                        Some(s) => s,
                                        None => {
                                            ok = false;
                                            break;
                                        }
                                    };
                                    match sp(&cur) {
                                        ConvOutcome::Ok(cv) => match cv.rec().get(&chain[step].id) {
                                            Some(inner) => cur = inner.clone(),
                                            None => {
                                                out.viol(format!("specialize-selects-wrong-child-on-round-trip matched-case={} observed={}", matched_case(&m, &chain[step + 1].id, &cur, &chain[step].id), if cv.rec().is_empty() { "None" } else { "another-child" }), || {
                                                    let mut d = ctx.base(t.name);
                                                    d["ancestor"] = json!(anc.id);
                                                    d["value"] = j.clone();
                                                    d["expected_child"] = json!(chain[step].id);
                                                    d["observed"] = cv.to_json();
                                                    d
                                                });
                                                ok = false;
                                                break;
                                            }
                                        },
                                        other => {
                                            out.viol(format!("specialize-fails-on-round-trip observed={}", conv_class(&other)), || {
                                                let mut d = ctx.base(t.name);
                                                d["ancestor"] = json!(anc.id);
                                                d["value"] = j.clone();
                                                d["observed"] = json!(format!("{other:?}"));
                                                d
                                            });
                                            ok = false;
                                            break;
                                        }
                                    }
                                }
                                if ok {
                                    let want = r.reserialized.clone().unwrap_or(v.clone());
                                    if !json_eq(&cur, &want) {
                                        out.viol("ancestor-round-trip-value-differs".to_string(), || {
                                            let mut d = ctx.base(t.name);
                                            d["ancestor"] = json!(anc.id);
                                            d["value"] = want.to_json();
                                            d["observed"] = cur.to_json();
                                            d
                                        });
                                    }
                                }
                            }
                        }
                    }
                }
                _ => {}
            }
        }
        if out.samples.len() < 3 && ctx.st.depth >= 2 {
            if let Some((v, _)) = all.first() {
                out.samples.push(json!({"type": t.name, "value": v.to_json(), "reference_encoding": m.encode(t.name, v).ok().map(|e| hexs(&e.bytes)), "source": ctx.base(t.name)["source"]}));
            }
        }
    }
}

/// does the parent value match a constrained case of `child`, or only its unconstrained one?
fn matched_case(m: &Model, parent: &str, pv: &Val, child: &str) -> &'static str {
    match m.specialize_matches_detail(parent, pv).iter().find(|x| x.0 == child) {
        Some((_, true)) => "constrained",
        Some((_, false)) => "unconstrained-only",
        None => "no-match",
    }
}

/// how the reference tells that `child` is the specialization of `parent`
fn child_case_class(m: &Model, parent: &str, child: &str) -> &'static str {
    let has_constraints = m.d.ancestry(child).iter().take_while(|a| a.id != parent).any(|a| !a.constraints().is_empty())
        || descendants_have_constraints(m.d, child);
    let static_size = matches!(
        (pdlmc_core::sizes::decl_size(m.d, child), pdlmc_core::sizes::payload_size(m.d, child)),
        (pdlmc_core::sizes::Size::Static(_), pdlmc_core::sizes::Size::Static(_))
    );
    match (has_constraints, static_size) {
        (true, _) => "constrained",
        (false, true) => "unconstrained-with-constant-size",
        (false, false) => "unconstrained-without-constant-size",
    }
}

fn descendants_have_constraints(d: &Desc, id: &str) -> bool {
    d.children(id).any(|c| !c.constraints().is_empty() || descendants_have_constraints(d, &c.id))
}

fn chunk_class(c: &model::Chunk) -> &'static str {
    match &c.kind {
        model::ChunkKind::Group(ms) => {
            if ms.iter().any(|m| m.kind == model::BitKind::Size) {
                "bit-field-group-with-size"
            } else if ms.iter().any(|m| m.kind == model::BitKind::Count) {
                "bit-field-group-with-count"
            } else if ms.iter().any(|m| m.kind == model::BitKind::ElemSize) {
                "bit-field-group-with-elementsize"
            } else if ms.iter().any(|m| m.kind == model::BitKind::Flag) {
                "bit-field-group-with-flag"
            } else {
                "bit-field-group"
            }
        }
        model::ChunkKind::Word => "word",
        model::ChunkKind::Bytes => "bytes",
        model::ChunkKind::Padding => "padding",
    }
}

fn enc_outcome_class(o: &EncOutcome) -> String {
    match o {
        EncOutcome::NotConstructible(_) => "not-constructible".into(),
        EncOutcome::Ok(_) => "ok".into(),
        EncOutcome::Err(k) => format!("{k:?}"),
        EncOutcome::Panic(p) => format!("panic {}", norm_msg(p)),
    }
}

fn dec_err_class(e: &Result<DecKind, String>) -> String {
    match e {
        Ok(k) => format!("{k:?}"),
        Err(p) => format!("panic {}", norm_msg(p)),
    }
}

fn conv_class(c: &ConvOutcome) -> String {
    match c {
        ConvOutcome::NotConstructible(_) => "not-constructible".into(),
        ConvOutcome::Ok(_) => "ok".into(),
        ConvOutcome::DecErr(k) => format!("{k:?}"),
        ConvOutcome::OtherErr(_) => "error".into(),
        ConvOutcome::Panic(p) => format!("panic {}", norm_msg(p)),
    }
}

// ------------------------------------------------------------------ C04

fn fault_to_kind(f: Fault) -> DecKind {
    match f {
        Fault::Length => DecKind::Length,
        Fault::Fixed => DecKind::Fixed,
        Fault::Enum => DecKind::Enum,
        Fault::ArraySize => DecKind::ArraySize,
        Fault::Trailing => DecKind::Trailing,
        Fault::TrailingInArray => DecKind::TrailingInArray,
        Fault::Constraint => DecKind::Constraint,
    }
}

fn run_c04(ctx: &Ctx, out: &mut Out) {
    let m = Model::new(ctx.inl);
    for t in &ctx.module.types {
        if t.kind == "custom" || !model_can_encode(ctx.inl, t.name) {
            out.inc("types-skipped-not-encodable-by-model");
            continue;
        }
        if let Err(why) = classes::deterministic(ctx.inl, t.name) {
            out.inc("types-skipped-not-deterministically-parseable");
            let _ = why;
            continue;
        }
        if !first_time(ctx, t.name, out) {
            continue;
        }
        let cls = construct_classes(ctx.inl, t.name);
        let rare = rare_constructs(&cls);
        out.inc("types");
        let dv = t.decode_full_value.unwrap();
        let enc = t.encode_check.unwrap();
        let n = for_inputs(ctx, &m, t.name, true, &mut |b: &[u8]| {
            let want = pdlmc_core_guard(|| m.decode_full(t.name, b));
            let want = match want {
                Some(w) => w,
                None => {
                    out.inc("model-skipped-inputs");
                    return;
                }
            };
            let got = dv(b);
            match (&want, &got) {
                (Ok(mv), Ok(gv)) => {
                    out.inc("outcome:both-accept");
                    if !json_eq(mv, gv) {
                        out.viol(format!("decoded-value-differs-from-reference rare-constructs={rare:?}"), || {
                            let mut d = ctx.base(t.name);
                            d["input"] = json!(hexs(b));
                            d["expected"] = mv.to_json();
                            d["observed"] = gv.to_json();
                            d
                        });
                    } else {
                        // re-encoding is canonical: equals the reference encoding of the value
                        if let Ok(e) = m.encode(t.name, mv) {
                            let r = enc(gv);
                            match &r.outcome {
                                EncOutcome::Ok(bytes) if *bytes == e.bytes => {}
                                other => {
                                    out.viol(format!("re-encoding-of-accepted-input-is-not-canonical observed={} rare-constructs={rare:?}", enc_outcome_class(other)), || {
                                        let mut d = ctx.base(t.name);
                                        d["input"] = json!(hexs(b));
                                        d["expected"] = json!(hexs(&e.bytes));
                                        d["observed"] = json!(format!("{other:?}"));
                                        d
                                    });
                                }
                            }
                        }
                    }
                }
                (Err(fs), Err(Ok(k))) => {
                    out.inc("outcome:both-reject");
                    if fs.len() == 1 {
                        out.inc("single-fault-inputs");
                        let f = *fs.iter().next().unwrap();
                        if fault_to_kind(f) != *k {
                            out.viol(format!("single-fault-reported-with-wrong-variant fault={:?} at={} observed={:?} rare-constructs={rare:?}", f, m.length_ctx.get(), k), || {
                                let mut d = ctx.base(t.name);
                                d["input"] = json!(hexs(b));
                                d
                            });
                        }
                    }
                }
                (Ok(mv), Err(e)) => {
                    out.inc("outcome:disagree");
                    out.viol(format!("reference-accepts-decoder-rejects error={} rare-constructs={rare:?}", dec_err_class(e)), || {
                        let mut d = ctx.base(t.name);
                        d["input"] = json!(hexs(b));
                        d["expected"] = mv.to_json();
                        d["observed"] = json!(format!("{e:?}"));
                        d
                    });
                }
                (Err(fs), Ok(gv)) => {
                    out.inc("outcome:disagree");
                    out.viol(format!("reference-rejects-decoder-accepts faults={:?} length-fault-at={} rare-constructs={rare:?}", fs, m.length_ctx.get()), || {
                        let mut d = ctx.base(t.name);
                        d["input"] = json!(hexs(b));
                        d["observed"] = gv.to_json();
                        d
                    });
                }
                (Err(_), Err(Err(p))) => {
                    out.inc("outcome:decoder-panic");
                    // panics are C01's business; count only
                    let _ = p;
                }
            }
        });
        out.add("decode-inputs", n);
        if out.samples.len() < 3 && ctx.st.depth >= 2 {
            out.samples.push(json!({"type": t.name, "inputs": n, "source": ctx.base(t.name)["source"]}));
        }
    }
}

/// C07: the Rust leg of the cross-backend comparison. This harness is the single source of the
/// operation list: for every packet / struct of the module it enumerates the values and the byte
/// strings, executes the generated Rust code on them and reports values, encodings, inputs and
/// decode results *without judging them*; the orchestrator hands exactly these values and inputs
/// to the Python, C++ and Java drivers and compares the four observations with each other.
fn run_c07(ctx: &Ctx, out: &mut Out) {
    let m = Model::new(ctx.inl);
    let big = ctx.module.big_endian;
    let mut types = vec![];
    let max_inputs = if ctx.tier_thorough { 3000 } else { 1500 };
    for t in &ctx.module.types {
        if t.kind == "custom" {
            continue;
        }
        let decl = match ctx.inl.get(t.name) {
            Some(d) => d,
            None => continue,
        };
        if !model_can_encode(ctx.inl, t.name) {
            continue;
        }
        let (enc_f, dec_f, dec_prefix_f) = match (t.encode_check, t.decode_full_value, t.decode_value) {
            (Some(a), Some(b), Some(c)) => (a, b, c),
            _ => continue,
        };
        // values: the explored in-range values (the reference is only asked which are in range)
        // (the values travel to three other drivers as text: arrays stay below 300 elements)
        let vg = ValueGen { m: &m, budget: if ctx.tier_thorough { Budget { max_values: 400, pairs: true, nested_alts: 4, max_array_len: 300 } } else { Budget { max_values: 60, pairs: true, nested_alts: 3, max_array_len: 20 } } };
        let vals: Vec<Val> = vg.values(t.name).ok.into_iter().filter(|v| m.encode(t.name, v).is_ok()).collect();
        let mut enc: Vec<serde_json::Value> = vec![];
        let mut own_encodings: Vec<Vec<u8>> = vec![];
        for v in &vals {
            PROGRESS.fetch_add(1, Ordering::Relaxed);
            let r = enc_f(v);
            enc.push(match &r.outcome {
                EncOutcome::Ok(b) => {
                    own_encodings.push(b.clone());
                    json!(model::hex(b))
                }
                EncOutcome::Err(k) => json!(format!("err:{k:?}")),
                EncOutcome::NotConstructible(e) => json!(format!("not-constructible:{}", norm_msg(e))),
                EncOutcome::Panic(p) => json!(format!("panic:{}", norm_msg(p))),
            });
        }
        // inputs: the bounded byte-string space of the type (for a child: of its root, so that
        // the whole tree sees the same strings) plus what this backend's own encoder produced
        let root = ctx.inl.ancestry(t.name).last().map(|d| d.id.clone()).unwrap_or_else(|| t.name.to_string());
        let mut seen: std::collections::HashSet<Vec<u8>> = std::collections::HashSet::new();
        let mut inputs: Vec<Vec<u8>> = vec![];
        for b in own_encodings {
            if seen.insert(b.clone()) {
                inputs.push(b);
            }
        }
        for ty in std::iter::once(root.clone()).chain(std::iter::once(t.name.to_string())) {
            for_inputs(ctx, &m, &ty, true, &mut |b: &[u8]| {
                if inputs.len() < max_inputs && seen.insert(b.to_vec()) {
                    inputs.push(b.to_vec());
                }
            });
        }
        let is_struct = decl.is_struct();
        let dec: Vec<serde_json::Value> = inputs
            .iter()
            .map(|b| {
                PROGRESS.fetch_add(1, Ordering::Relaxed);
                if is_struct {
                    match dec_prefix_f(b) {
                        Ok((v, n)) => json!({"v": v.to_json(), "n": n}),
                        Err(Ok(k)) => json!(format!("err:{k:?}")),
                        Err(Err(p)) => json!(format!("panic:{}", norm_msg(&p))),
                    }
                } else {
                    match dec_f(b) {
                        Ok(v) => json!({"v": v.to_json()}),
                        Err(Ok(k)) => json!(format!("err:{k:?}")),
                        Err(Err(p)) => json!(format!("panic:{}", norm_msg(&p))),
                    }
                }
            })
            .collect();
        out.add("c07-values", vals.len() as u64);
        out.add("c07-inputs", inputs.len() as u64);
        types.push(json!({
            "name": t.name,
            "kind": t.kind,
            "values": vals,
            "enc": enc,
            "inputs": inputs.iter().map(|b| model::hex(b)).collect::<Vec<_>>(),
            "dec": dec,
        }));
    }
    out.observations.push(json!({"state": ctx.st.id, "big": big, "types": types}));
}

fn pdlmc_core_guard<T>(f: impl FnOnce() -> T) -> Option<T> {
    std::panic::catch_unwind(std::panic::AssertUnwindSafe(f)).ok()
}

// ------------------------------------------------------------------ C06

fn run_c06(ctx: &Ctx, out: &mut Out) {
    let m = Model::new(ctx.inl);
    for t in &ctx.module.types {
        if ctx.inl.children(t.name).next().is_none() || !model_can_encode(ctx.inl, t.name) {
            continue;
        }
        if !classes::unambiguous(&m, t.name) {
            out.inc("parents-skipped-ambiguous");
            continue;
        }
        if !first_time(ctx, t.name, out) {
            continue;
        }
        let spec = match t.specialize {
            Some(s) => s,
            None => continue,
        };
        let cls = construct_classes(ctx.inl, t.name);
        out.inc("parents");
        // parent values: every Ok decode of the byte strings, plus Parent::try_from(child values)
        let mut pvals: BTreeSet<Val> = BTreeSet::new();
        let dv = t.decode_value.unwrap();
        for_inputs(ctx, &m, t.name, true, &mut |b: &[u8]| {
            if pvals.len() < 3000 {
                if let Ok((v, _)) = dv(b) {
                    pvals.insert(v);
                }
            }
        });
        let vg = ValueGen { m: &m, budget: budget(ctx.tier_thorough) };
        for cv in ctx.module.convs.iter().filter(|c| c.parent == t.name) {
            if !model_can_encode(ctx.inl, cv.child) {
                continue;
            }
            let ct = ctx.module.types.iter().find(|x| x.name == cv.child).unwrap();
            for c in vg.values(cv.child).ok.iter().take(if ctx.tier_thorough { 600 } else { 80 }) {
                PROGRESS.fetch_add(1, Ordering::Relaxed);
                if m.encode(cv.child, c).is_err() {
                    continue;
                }
                out.inc("child-values");
                match (cv.to_parent)(c) {
                    ConvOutcome::Ok(pj) => {
                        out.inc("outcome:to-parent-ok");
                        // (1) the constrained fields carry the constraint values
                        for (k, cval) in m.all_constraints(cv.child) {
                            if let Some(Val::Int(obs)) = pj.rec().get(&k) {
                                if let Some(want) = m.cval_int(cv.child, &k, &cval) {
                                    if *obs != want {
                                        out.viol("parent-from-child-has-wrong-constraint-value".to_string(), || {
                                            let mut d = ctx.base(t.name);
                                            d["child"] = json!(cv.child);
                                            d["child_value"] = c.to_json();
                                            d["field"] = json!(k);
                                            d["expected"] = json!(want);
                                            d["observed_parent"] = pj.to_json();
                                            d
                                        });
                                    }
                                }
                            }
                        }
                        // (2) encodes to the same bytes as the child
                        let pe = (t.encode_check.unwrap())(&pj);
                        let ce = (ct.encode_check.unwrap())(c);
                        match (&pe.outcome, &ce.outcome) {
                            (EncOutcome::Ok(pb), EncOutcome::Ok(cb)) => {
                                if pb != cb {
                                    out.viol("parent-from-child-encodes-differently".to_string(), || {
                                        let mut d = ctx.base(t.name);
                                        d["child"] = json!(cv.child);
                                        d["child_value"] = c.to_json();
                                        d["parent_bytes"] = json!(hexs(pb));
                                        d["child_bytes"] = json!(hexs(cb));
                                        d
                                    });
                                }
                            }
                            (a, b) => {
                                out.viol(format!("parent-or-child-encode-fails parent={} child={}", enc_outcome_class(a), enc_outcome_class(b)), || {
                                    let mut d = ctx.base(t.name);
                                    d["child"] = json!(cv.child);
                                    d["child_value"] = c.to_json();
                                    d
                                });
                            }
                        }
                        // (3) converts back to the child
                        match (cv.to_child)(&pj) {
                            ConvOutcome::Ok(back) => {
                                let want = ce.reserialized.clone().unwrap_or(c.clone());
                                if back != want {
                                    out.viol("child-parent-child-conversion-differs".to_string(), || {
                                        let mut d = ctx.base(t.name);
                                        d["child"] = json!(cv.child);
                                        d["child_value"] = want.to_json();
                                        d["observed"] = back.to_json();
                                        d
                                    });
                                }
                            }
                            other => {
                                // only a defect when the reference parses the child back
                                let mut faults = BTreeSet::new();
                                let model_ok = m.decode_partial(cv.child, &pj, &mut faults).is_some() && faults.is_empty();
                                if model_ok {
                                    out.viol(format!("child-parent-child-conversion-fails observed={}", conv_class(&other)), || {
                                        let mut d = ctx.base(t.name);
                                        d["child"] = json!(cv.child);
                                        d["child_value"] = c.to_json();
                                        d["observed"] = json!(format!("{other:?}"));
                                        d
                                    });
                                }
                            }
                        }
                        // only direct children feed the specialize oracle of this parent
                        pvals.insert(pj);
                    }
                    ConvOutcome::NotConstructible(_) => {}
                    other => {
                        out.viol(format!("parent-from-child-fails observed={}", conv_class(&other)), || {
                            let mut d = ctx.base(t.name);
                            d["child"] = json!(cv.child);
                            d["child_value"] = c.to_json();
                            d["observed"] = json!(format!("{other:?}"));
                            d
                        });
                    }
                }
            }
        }
        let direct: Vec<&str> = ctx.inl.children(t.name).map(|c| c.id.as_str()).collect();
        // specialize and Child::try_from on every parent value
        for pv in &pvals {
            PROGRESS.fetch_add(1, Ordering::Relaxed);
            out.inc("parent-values");
            let matches = m.specialize_matches(t.name, pv);
            let got = spec(pv);
            if matches.len() > 1 {
                out.inc("parent-values-skipped-two-children-match");
            } else {
                let expected: Result<Option<(String, Val)>, BTreeSet<Fault>> = match matches.first() {
                    None => Ok(None),
                    Some(x) => {
                        let mut faults = BTreeSet::new();
                        match m.decode_partial(x, pv, &mut faults) {
                            Some(cv) if faults.is_empty() => Ok(Some((x.clone(), cv))),
                            _ => Err(faults),
                        }
                    }
                };
                let ok = match (&expected, &got) {
                    (Ok(None), ConvOutcome::Ok(j)) => {
                        out.inc("outcome:specialize-none");
                        j.rec().is_empty()
                    }
                    (Ok(Some((x, cv))), ConvOutcome::Ok(j)) => {
                        out.inc("outcome:specialize-child");
                        j.rec().get(x).map(|inner| inner == cv).unwrap_or(false)
                    }
                    (Err(_), ConvOutcome::DecErr(_)) => {
                        out.inc("outcome:specialize-error");
                        true
                    }
                    _ => false,
                };
                if !ok {
                    let exp_class = match &expected {
                        Ok(None) => "None".to_string(),
                        Ok(Some(_)) => "child".to_string(),
                        Err(_) => "error".to_string(),
                    };
                    let got_class = match &got {
                        ConvOutcome::Ok(j) if j.rec().is_empty() => "None".to_string(),
                        ConvOutcome::Ok(_) => "child".to_string(),
                        o => conv_class(o),
                    };
                    let mc = match matches.first() {
                        Some(x) => matched_case(&m, t.name, pv, x),
                        None => "none",
                    };
                    out.viol(format!("specialize-differs-from-reference expected={exp_class} observed={got_class} matched-case={mc} uses-size={:?}", m.specialize_uses_size(t.name)), || {
                        let mut d = ctx.base(t.name);
                        d["parent_value"] = pv.to_json();
                        d["expected"] = match &expected {
                            Ok(None) => json!("None"),
                            Ok(Some((x, cv))) => json!({x.as_str(): cv.to_json()}),
                            Err(f) => json!(format!("{f:?}")),
                        };
                        d["observed"] = json!(format!("{got:?}"));
                        d
                    });
                }
            }
            // Child::try_from(&p) fails with ConstraintValueError iff a constraint of the child is violated
            for cv in ctx.module.convs.iter().filter(|c| c.parent == t.name && direct.contains(&c.child)) {
                out.inc("try_from-calls");
                let mut faults = BTreeSet::new();
                let mres = m.decode_partial(cv.child, pv, &mut faults);
                let got = (cv.to_child)(pv);
                let constraint_violated = faults.contains(&Fault::Constraint);
                let ok = match &got {
                    ConvOutcome::DecErr(DecKind::Constraint) => constraint_violated,
                    ConvOutcome::DecErr(_) => !constraint_violated && !(mres.is_some() && faults.is_empty()),
                    ConvOutcome::Ok(j) => match (&mres, faults.is_empty()) {
                        (Some(v), true) => j == v,
                        _ => false,
                    },
                    _ => false,
                };
                if !ok {
                    out.viol(format!("child-try_from-differs-from-reference observed={} model-faults={:?}", conv_class(&got), faults), || {
                        let mut d = ctx.base(t.name);
                        d["child"] = json!(cv.child);
                        d["parent_value"] = pv.to_json();
                        d["observed"] = json!(format!("{got:?}"));
                        d["expected"] = json!(mres.as_ref().map(|v| v.to_json()));
                        d
                    });
                }
            }
        }
        if out.samples.len() < 3 {
            out.samples.push(json!({"parent": t.name, "parent_values": pvals.len(), "source": ctx.base(t.name)["source"]}));
        }
    }
}

// ------------------------------------------------------------------ C15

fn run_c15(ctx: &Ctx, out: &mut Out) {
    for e in &ctx.module.enums {
        if !ctx.owned.iter().any(|t| t == e.name) {
            out.inc("types-identical-to-one-checked-in-another-module");
            continue;
        }
        let (w, _tags) = match ctx.inl.get(e.name) {
            Some(Decl { kind: DeclKind::Enum { width, tags }, .. }) => (*width, tags),
            _ => continue,
        };
        out.inc("enums");
        let backing_max: u64 = if e.backing_bits >= 64 { u64::MAX } else { (1u64 << e.backing_bits) - 1 };
        let max = max_of_width(w);
        let mut xs: Vec<u64> = vec![];
        if e.backing_bits <= 16 {
            xs.extend(0..=backing_max);
            out.inc("enums-exhaustive-over-backing-type");
        } else {
            let mut push = |x: u64| {
                if !xs.contains(&x) {
                    xs.push(x)
                }
            };
            for c in [0u64, 1, max.wrapping_sub(1), max, backing_max.wrapping_sub(1), backing_max] {
                push(c);
            }
            if w < 64 {
                push(max + 1);
                push(max + 2);
            }
            if let Some(Decl { kind: DeclKind::Enum { tags, .. }, .. }) = ctx.inl.get(e.name) {
                for t in tags {
                    let mut near = |v: u64| {
                        push(v.wrapping_sub(1));
                        push(v);
                        push(v.wrapping_add(1));
                    };
                    match t {
                        Tag::Value { value, .. } => near(*value),
                        Tag::Range { lo, hi, tags, .. } => {
                            near(*lo);
                            near(*hi);
                            near(lo + (hi - lo) / 2);
                            for (_, v) in tags {
                                near(*v);
                            }
                        }
                        Tag::Other { .. } => {}
                    }
                }
            }
            // every power of two and its neighbours
            for k in 0..64u32 {
                let p = 1u64 << k;
                push(p);
                push(p - 1);
                push(p.wrapping_add(1));
            }
        }
        let shape = enum_shape_class(ctx.inl, e.name);
        for x in xs {
            PROGRESS.fetch_add(1, Ordering::Relaxed);
            if x > backing_max {
                continue;
            }
            out.inc("integers");
            let want_accept = x <= max && model::enum_accepts(ctx.inl, e.name, x);
            let got = (e.try_from)(x);
            match (&got, want_accept) {
                (EnumOutcome::Rejected, false) => out.inc("outcome:rejected"),
                (EnumOutcome::Accepted { debug, back, wide }, true) => {
                    out.inc("outcome:accepted");
                    let want_dbg = classes::enum_variant_debug(ctx.inl, e.name, x).unwrap_or_default();
                    if *debug != want_dbg {
                        out.viol(format!("enum-variant-differs-from-reference shape={shape}"), || {
                            let mut d = ctx.base(e.name);
                            d["integer"] = json!(x);
                            d["expected"] = json!(want_dbg);
                            d["observed"] = json!(debug);
                            d
                        });
                    }
                    if *back != x {
                        out.viol(format!("enum-back-conversion-differs shape={shape}"), || {
                            let mut d = ctx.base(e.name);
                            d["integer"] = json!(x);
                            d["observed"] = json!(back);
                            d
                        });
                    }
                    for (ty, v) in wide {
                        if *v != x as i128 {
                            out.viol(format!("enum-widening-conversion-differs to={ty} shape={shape}"), || {
                                let mut d = ctx.base(e.name);
                                d["integer"] = json!(x);
                                d["observed"] = json!(v.to_string());
                                d
                            });
                        }
                    }
                }
                (EnumOutcome::Accepted { debug, .. }, false) => {
                    let why = if x > max { "integer-at-or-above-2^w-accepted" } else { "undeclared-value-accepted" };
                    out.viol(format!("{why} shape={shape}"), || {
                        let mut d = ctx.base(e.name);
                        d["integer"] = json!(x);
                        d["observed"] = json!(debug);
                        d
                    });
                }
                (EnumOutcome::Rejected, true) => {
                    out.viol(format!("declared-value-rejected shape={shape}"), || {
                        let mut d = ctx.base(e.name);
                        d["integer"] = json!(x);
                        d
                    });
                }
                (EnumOutcome::Panic(p), _) => {
                    out.viol(format!("enum-conversion-panic shape={shape}"), || {
                        let mut d = ctx.base(e.name);
                        d["integer"] = json!(x);
                        d["panic"] = json!(p);
                        d
                    });
                }
                (EnumOutcome::OutOfBacking, _) => {}
            }
        }
        if out.samples.len() < 3 {
            out.samples.push(json!({"enum": e.name, "width": w, "shape": shape, "source": ctx.base(e.name)["source"]}));
        }
    }
}

fn enum_shape_class(d: &Desc, id: &str) -> String {
    match d.get(id) {
        Some(Decl { kind: DeclKind::Enum { tags, .. }, .. }) => {
            let open = tags.iter().any(|t| matches!(t, Tag::Other { .. }));
            let ranges = tags.iter().filter(|t| matches!(t, Tag::Range { .. })).count();
            let nested = tags.iter().any(|t| matches!(t, Tag::Range { tags, .. } if !tags.is_empty()));
            format!("{}{}{}", if open { "open" } else { "closed" }, if ranges > 0 { "+ranges" } else { "" }, if nested { "+nested" } else { "" })
        }
        _ => "?".into(),
    }
}

// ------------------------------------------------------------------ entry point

pub fn main(modules: Vec<Module>) {
    install_panic_hook();
    let args: Vec<String> = std::env::args().collect();
    if args.len() < 5 {
        eprintln!("usage: shard <states.json> <owners.json> <property> <quick|thorough> [--journal f] [--states a,b,c]");
        std::process::exit(2);
    }
    let states: Vec<StateIn> = serde_json::from_str(&std::fs::read_to_string(&args[1]).expect("states file")).expect("states json");
    let owners: BTreeMap<String, Vec<String>> = serde_json::from_str(&std::fs::read_to_string(&args[2]).expect("owners file")).expect("owners json");
    let prop = args[3].as_str();
    let thorough = args[4] == "thorough";
    let mut journal_path: Option<String> = None;
    let mut only: Option<Vec<usize>> = None;
    let mut k = 5;
    while k < args.len() {
        match args[k].as_str() {
            "--journal" => {
                journal_path = args.get(k + 1).cloned();
                k += 2;
            }
            "--states" => {
                if let Some(s) = args.get(k + 1) {
                    only = Some(s.split(',').filter_map(|x| x.parse().ok()).collect());
                }
                k += 2;
            }
            _ => k += 1,
        }
    }
    // watchdog: no progress for 60 s => report and die
    let journal: &'static std::sync::Mutex<String> = Box::leak(Box::new(std::sync::Mutex::new(String::new())));
    std::thread::spawn(move || {
        let mut last = 0u64;
        let mut stale = 0;
        loop {
            std::thread::sleep(std::time::Duration::from_secs(5));
            let cur = PROGRESS.load(Ordering::Relaxed);
            if cur == last {
                stale += 1;
                if stale >= 12 {
                    let j = journal.lock().map(|s| s.clone()).unwrap_or_default();
                    println!("{}", json!({"watchdog": true, "journal": j}));
                    std::process::exit(3);
                }
            } else {
                stale = 0;
                last = cur;
            }
        }
    });
    let mut out = Out { violations: BTreeMap::new(), counters: BTreeMap::new(), samples: vec![], observations: vec![] };
    let by_id: BTreeMap<usize, &StateIn> = states.iter().map(|s| (s.id, s)).collect();
    let none: Vec<String> = vec![];
    for module in &modules {
        if let Some(o) = &only {
            if !o.contains(&module.state) {
                continue;
            }
        }
        let st = match by_id.get(&module.state) {
            Some(s) => *s,
            None => continue,
        };
        let e = if module.big_endian { Endian::Big } else { Endian::Little };
        let desc = st.desc.with_endian(e);
        let inl = match rules::inline_groups(&desc) {
            Some(i) => i,
            None => continue,
        };
        if let Ok(mut j) = journal.lock() {
            *j = format!("state={} endian={:?} property={}", st.id, e, prop);
        }
        if let Some(p) = &journal_path {
            let _ = std::fs::write(p, format!("{} {:?} {}\n", st.id, e, prop));
        }
        PROGRESS.fetch_add(1, Ordering::Relaxed);
        let owned = owners.get(&format!("{}_{}", st.id, if module.big_endian { "be" } else { "le" })).unwrap_or(&none);
        let ctx = Ctx { st, inl: &inl, module, tier_thorough: thorough, owned };
        out.inc("modules");
        match prop {
            "C01" => run_decode_checks(&ctx, &mut out, "C01"),
            "C18" => {
                run_decode_checks(&ctx, &mut out, "C18");
                run_value_checks(&ctx, &mut out, "C18", None);
            }
            "C02" | "C03" | "C05" => run_value_checks(&ctx, &mut out, prop, None),
            "C17" => {
                // the little-endian module drives; its twin is looked up
                if !module.big_endian {
                    let twin = modules.iter().find(|x| x.state == module.state && x.big_endian);
                    run_value_checks(&ctx, &mut out, "C17", twin);
                }
            }
            "C04" => run_c04(&ctx, &mut out),
            "C06" => run_c06(&ctx, &mut out),
            "C15" => run_c15(&ctx, &mut out),
            "C07" => run_c07(&ctx, &mut out),
            _ => {
                eprintln!("unknown property {prop}");
                std::process::exit(2);
            }
        }
    }
    let viols: Vec<serde_json::Value> =
        out.violations.iter().map(|(sig, (n, d))| json!({"sig": sig, "occurrences": n, "detail": d})).collect();
    println!("{}", json!({"violations": viols, "counters": out.counters, "samples": out.samples, "observations": out.observations}));
}
