//! C15, Python leg: `Enum.from_int(x)` of the generated Python module for every enum of the
//! compiled states that the Python backend supports: all integers below 2^w for w <= 12, the
//! boundary neighbourhoods of every tag value and range bound for wider enums. (The Rust leg runs
//! inside the harness over the whole backing type; C++ `IsValid<E>` is exercised through the enum
//! fields and arrays of C14 / C07.)

use crate::drive::{self, Backend, Outcome};
use pdlmc_core::graph::Tier;
use pdlmc_core::ir::*;
use pdlmc_core::model;
use pdlmc_core::render;
use pdlmc_core::report::{Reporter, Violation, VERIF_DIR};
use pdlmc_core::rules;
use pdlmc_core::select::Selected;
use pdlmc_core::support::{unsupported, Lang};
use rayon::prelude::*;
use serde_json::{json, Value as J};
use std::collections::{BTreeMap, BTreeSet};
use std::path::PathBuf;
use std::process::Command;

fn integers(width: u64, tags: &[Tag]) -> Vec<u64> {
    let max = if width >= 64 { u64::MAX } else { (1u64 << width) - 1 };
    if width <= 12 {
        return (0..=max).collect();
    }
    let mut s: BTreeSet<u64> = BTreeSet::new();
    let mut around = |x: u64| {
        for y in [x.wrapping_sub(1), x, x.wrapping_add(1)] {
            if y <= max {
                s.insert(y);
            }
        }
    };
    around(0);
    around(max);
    for t in tags {
        match t {
            Tag::Value { value, .. } => around(*value),
            Tag::Range { lo, hi, tags, .. } => {
                around(*lo);
                around(*hi);
                around(lo + (hi - lo) / 2);
                for (_, v) in tags {
                    around(*v);
                }
            }
            Tag::Other { .. } => {}
        }
    }
    let mut k = 1u64;
    while k <= max && k != 0 {
        around(k);
        k = k.wrapping_shl(1);
    }
    s.into_iter().collect()
}

pub fn python_leg(tier: Tier, all: &[Selected], rep: &mut Reporter, counters: &mut BTreeMap<String, u64>) -> Result<(), String> {
    let root = PathBuf::from(format!("{VERIF_DIR}/work/c15_{}", crate::front::tier_name(tier)));
    let _ = std::fs::remove_dir_all(&root);
    std::fs::create_dir_all(&root).map_err(|e| e.to_string())?;
    let python: String = Command::new("python3").args(["-c", "import sys; print(sys.executable)"]).output().ok().map(|o| String::from_utf8_lossy(&o.stdout).trim().to_string()).filter(|s| !s.is_empty()).unwrap_or_else(|| "python3".to_string());
    // distinct enum declarations (by text) are checked once
    let mut seen: BTreeSet<String> = BTreeSet::new();
    let mut jobs: Vec<(&Selected, Desc, Vec<String>)> = vec![];
    for st in all {
        let inl = match rules::inline_groups(&st.desc) {
            Some(i) => i,
            None => continue,
        };
        if unsupported(Lang::Python, &inl).is_some() {
            continue;
        }
        let mut fresh = vec![];
        for d in &inl.decls {
            if let DeclKind::Enum { width, tags } = &d.kind {
                // KF-29: an enum without value tags is an IntEnum without members
                if !tags.iter().any(|t| matches!(t, Tag::Value { .. })) {
                    continue;
                }
                let key = format!("{width}:{tags:?}");
                if seen.insert(key) {
                    fresh.push(d.id.clone());
                }
            }
        }
        if !fresh.is_empty() {
            jobs.push((st, inl, fresh));
        }
    }
    let results: Vec<(Vec<Violation>, u64, u64)> = jobs
        .par_iter()
        .map(|(st, inl, enums)| {
            let mut viols = vec![];
            let mut n_ints = 0u64;
            let text = render::canonical(&st.desc);
            let run = drive::run_text_named(&text, "t.pdl");
            let code = match &run.outcome {
                Outcome::Accepted => drive::generate(Backend::Python, &run, None),
                o => Err(format!("not accepted: {o:?}")),
            };
            let code = match code {
                Ok(c) => c,
                Err(_) => return (viols, 0, 0),
            };
            let id = format!("e{}", st.id);
            let mf = root.join(format!("{id}.py"));
            if std::fs::write(&mf, code).is_err() {
                return (viols, 0, 0);
            }
            let lists: Vec<(String, u64, Vec<Tag>, Vec<u64>)> = enums
                .iter()
                .filter_map(|e| match inl.get(e).map(|d| &d.kind) {
                    Some(DeclKind::Enum { width, tags }) => Some((e.clone(), *width, tags.clone(), integers(*width, tags))),
                    _ => None,
                })
                .collect();
            let task = json!([{"module": mf, "id": id, "enums": lists.iter().map(|(e, _, _, xs)| json!({"type": e, "values": xs})).collect::<Vec<_>>()}]);
            let tf = root.join(format!("{id}.task.json"));
            let rf = root.join(format!("{id}.result.jsonl"));
            let _ = std::fs::write(&tf, serde_json::to_string(&task).unwrap());
            let _ = Command::new("timeout").arg("3600").arg(&python).arg(format!("{VERIF_DIR}/drivers/pydrv.py")).arg(&tf).arg(&rf).env("PYTHONDONTWRITEBYTECODE", "1").status();
            let result: Option<J> = std::fs::read_to_string(&rf).ok().and_then(|s| s.lines().next().and_then(|l| serde_json::from_str(l).ok()));
            let _ = std::fs::remove_file(&tf);
            let _ = std::fs::remove_file(&rf);
            let _ = std::fs::remove_file(&mf);
            let r = match result {
                Some(r) if r.get("load_error").is_none() && r.get("driver_error").is_none() => r,
                _ => return (viols, 0, 0), // loading problems are C13's business
            };
            for (k, (e, width, tags, xs)) in lists.iter().enumerate() {
                let res = match r["enums"][k]["results"].as_array() {
                    Some(a) => a,
                    None => continue,
                };
                let shape = format!("{}{}", if tags.iter().any(|t| matches!(t, Tag::Other { .. })) { "open" } else { "closed" }, if tags.iter().any(|t| matches!(t, Tag::Range { .. })) { "+ranges" } else { "" });
                for (x, got) in xs.iter().zip(res.iter()) {
                    n_ints += 1;
                    let accepts = model::enum_accepts(inl, e, *x);
                    let top_tag: Option<&str> = tags.iter().find_map(|t| match t {
                        Tag::Value { id, value } if value == x => Some(id.as_str()),
                        _ => None,
                    });
                    let kind = got[0].as_str().unwrap_or("");
                    let problem: Option<String> = match (accepts, kind) {
                        (true, "member") => {
                            if got[1].as_str() != top_tag || got[2].as_u64() != Some(*x) {
                                Some(format!("wrong-member expected={top_tag:?}"))
                            } else {
                                None
                            }
                        }
                        (true, "int") => {
                            if top_tag.is_some() {
                                Some("declared-tag-returned-as-plain-int".into())
                            } else if got[1].as_u64() != Some(*x) {
                                Some("value-not-preserved".into())
                            } else {
                                None
                            }
                        }
                        (true, _) => Some(format!("declared-value-rejected exception={}", got[1].as_str().unwrap_or(""))),
                        (false, "err") => {
                            if got[2].as_bool() == Some(true) {
                                None
                            } else {
                                Some(format!("rejected-with-non-DecodeError exception={}", got[1].as_str().unwrap_or("")))
                            }
                        }
                        (false, _) => Some("undeclared-value-accepted".into()),
                    };
                    if let Some(p) = problem {
                        viols.push(Violation {
                            property: "C15".into(),
                            sig: format!("python-from_int {p} shape={shape} width-class={}", if *width <= 8 { "<=8" } else if *width <= 16 { "<=16" } else { ">16" }),
                            detail: json!({"state": {"state": st.id, "family": st.family, "source": text}, "enum": e, "integer": x, "observed": got}),
                        });
                    }
                }
            }
            (viols, n_ints, lists.len() as u64)
        })
        .collect();
    for (v, n, e) in results {
        for x in v {
            rep.report(x);
        }
        *counters.entry("python-integers".into()).or_default() += n;
        *counters.entry("python-enums".into()).or_default() += e;
    }
    let _ = std::fs::remove_dir_all(&root);
    Ok(())
}
