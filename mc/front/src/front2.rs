//! C12 (parser fidelity) and C10 (no crash, output is syntactically valid).

use crate::drive::{self, Backend, Outcome};
use crate::front::*;
use pdl_compiler::{ast, parser};
use pdlmc_core::evidence::Evidence;
use pdlmc_core::graph::{State, Tier};
use pdlmc_core::ir::*;
use pdlmc_core::recognizer::Rec;
use pdlmc_core::render::{self, Pres, Rendered, TokKind};
use pdlmc_core::report::{Reporter, Violation};
use pdlmc_core::rules;
use pdlmc_core::support::{self, Lang};
use rayon::prelude::*;
use serde_json::json;
use std::collections::{BTreeMap, HashSet};

// =============================================================================== C12

fn ast_spans(f: &ast::File) -> BTreeMap<String, ast::SourceRange> {
    let mut m = BTreeMap::new();
    m.insert("endian".to_string(), f.endianness.loc);
    for (i, d) in f.declarations.iter().enumerate() {
        let p = format!("d{i}");
        m.insert(p.clone(), d.loc);
        if let ast::DeclDesc::Enum { tags, .. } = &d.desc {
            for (j, t) in tags.iter().enumerate() {
                m.insert(format!("{p}.t{j}"), *t.loc());
                if let ast::Tag::Range(r) = t {
                    for (k, s) in r.tags.iter().enumerate() {
                        m.insert(format!("{p}.t{j}.s{k}"), s.loc);
                    }
                }
            }
        }
        for (k, c) in d.constraints().enumerate() {
            m.insert(format!("{p}.c{k}"), c.loc);
        }
        for (j, fl) in d.fields().enumerate() {
            let fp = format!("{p}.f{j}");
            m.insert(fp.clone(), fl.loc);
            if let Some(c) = &fl.cond {
                m.insert(format!("{fp}.cond"), c.loc);
            }
            if let ast::FieldDesc::Group { constraints, .. } = &fl.desc {
                for (k, c) in constraints.iter().enumerate() {
                    m.insert(format!("{fp}.c{k}"), c.loc);
                }
            }
        }
    }
    m
}

fn only_skip(s: &str) -> bool {
    // whitespace and complete comments only
    let b = s.as_bytes();
    let mut i = 0;
    while i < b.len() {
        match b[i] {
            b' ' | b'\n' | b'\r' | b'\t' => i += 1,
            b'/' if i + 1 < b.len() && b[i + 1] == b'*' => match s[i + 2..].find("*/") {
                Some(e) => i = i + 2 + e + 2,
                None => return false,
            },
            b'/' if i + 1 < b.len() && b[i + 1] == b'/' => match s[i..].find('\n') {
                Some(e) => i += e + 1,
                None => i = b.len(),
            },
            _ => return false,
        }
    }
    true
}

fn line_col(text: &str, offset: usize) -> (usize, usize) {
    let before = &text.as_bytes()[..offset.min(text.len())];
    let line = before.iter().filter(|c| **c == b'\n').count();
    let start = before.iter().rposition(|c| *c == b'\n').map(|p| p + 1).unwrap_or(0);
    (line, offset - start)
}

fn check_parse(s: &State, name: &str, r: &Rendered, rep: &mut Reporter, c: &mut Counters) {
    let kind = name.split(':').nth(1).unwrap_or(name).to_string();
    let mut sources = ast::SourceDatabase::new();
    let text = &r.text;
    c.inc("parses");
    let parsed = drive::guarded(|| parser::parse_inline(&mut sources, "stdin", text.clone()));
    let file = match parsed {
        Err(p) => {
            c.inc("outcome:panic");
            rep.report(Violation {
                property: "C12".into(),
                sig: format!("parser-panic msg={}", norm_panic(&p)),
                detail: json!({"state": state_detail(s, text), "presentation": name, "panic": p}),
            });
            return;
        }
        Ok(Err(d)) => {
            c.inc("outcome:rejected");
            let msg: String = d.message.chars().take(60).collect();
            rep.report(Violation {
                property: "C12".into(),
                sig: format!("valid-text-rejected kind={kind} msg={}", norm_panic(msg.split(':').next().unwrap_or(""))),
                detail: json!({"state": state_detail(s, text), "presentation": name, "message": d.message}),
            });
            return;
        }
        Ok(Ok(f)) => f,
    };
    c.inc("outcome:parsed");
    // (1) the AST is exactly what was written
    let got = drive::from_ast(&file);
    if got != *s.desc {
        let first = s
            .desc
            .decls
            .iter()
            .zip(got.decls.iter())
            .position(|(a, b)| a != b)
            .map(|i| format!("{}", s.desc.decls[i].kind_name()))
            .unwrap_or_else(|| "count/endianness".into());
        rep.report(Violation {
            property: "C12".into(),
            sig: format!("ast-differs-from-source kind={kind} first-difference-in={first}"),
            detail: json!({"state": state_detail(s, text), "presentation": name, "parsed_ir": got}),
        });
    }
    // (2) source ranges
    let spans = ast_spans(&file);
    for n in &r.nodes {
        c.inc("ranges");
        let loc = match spans.get(&n.path) {
            Some(l) => l,
            None => {
                rep.report(Violation {
                    property: "C12".into(),
                    sig: format!("node-missing-in-ast path-kind={}", path_kind(&n.path)),
                    detail: json!({"state": state_detail(s, text), "presentation": name, "path": n.path}),
                });
                continue;
            }
        };
        let (st, en) = (loc.start.offset, loc.end.offset);
        let mut problems: Vec<String> = vec![];
        if !(st <= en && en <= text.len()) {
            problems.push("range-out-of-file-or-unordered".into());
        } else {
            if st != n.start {
                problems.push("start-is-not-the-node-start".into());
            }
            if en < n.end {
                problems.push("range-does-not-cover-the-node-text".into());
            } else if !text.is_char_boundary(en) || !only_skip(&text[n.end.min(en)..en]) {
                problems.push("range-extends-into-other-tokens".into());
            }
        }
        for (which, l) in [("start", loc.start), ("end", loc.end)] {
            if l.offset <= text.len() {
                let (line, col) = line_col(text, l.offset);
                if (l.line, l.column) != (line, col) {
                    problems.push(format!("{which}-line-column-inconsistent-with-offset"));
                }
            }
        }
        if !problems.is_empty() {
            rep.report(Violation {
                property: "C12".into(),
                sig: format!("bad-source-range path-kind={} problems={:?}", path_kind(&n.path), problems),
                detail: json!({"state": state_detail(s, text), "presentation": name, "path": n.path,
                    "expected": {"start": n.start, "end_at_least": n.end}, "observed": {"start": st, "end": en,
                    "start_line": loc.start.line, "start_col": loc.start.column, "end_line": loc.end.line, "end_col": loc.end.column}}),
            });
        }
    }
    // (3) comments are reported with their text
    let expected_comments = count_comments(text);
    if file.comments.len() != expected_comments {
        rep.report(Violation {
            property: "C12".into(),
            sig: format!("comment-count-differs kind={kind}"),
            detail: json!({"state": state_detail(s, text), "presentation": name, "expected": expected_comments, "observed": file.comments.len()}),
        });
    }
    for cm in &file.comments {
        let (st, en) = (cm.loc.start.offset, cm.loc.end.offset);
        let ok = st <= en && en <= text.len() && text.is_char_boundary(st) && text.is_char_boundary(en) && text[st..en] == cm.text && (cm.text.starts_with("/*") || cm.text.starts_with("//"));
        if !ok {
            rep.report(Violation {
                property: "C12".into(),
                sig: format!("comment-text-or-range-wrong kind={kind}"),
                detail: json!({"state": state_detail(s, text), "presentation": name, "comment": cm.text, "start": st, "end": en}),
            });
        }
    }
    // (4) the JSON backend prints what was parsed
    if name != "canonical" {
        return;
    }
    c.inc("json");
    match drive::guarded(|| pdl_compiler::backends::json::generate(&file)) {
        Ok(Ok(js)) => match serde_json::from_str::<serde_json::Value>(&js) {
            Ok(v) => {
                let n = v["declarations"].as_array().map(|a| a.len()).unwrap_or(usize::MAX);
                let ids_ok = v["declarations"]
                    .as_array()
                    .map(|a| a.iter().zip(s.desc.decls.iter()).all(|(j, d)| j["id"].as_str() == Some(d.id.as_str())))
                    .unwrap_or(false);
                if n != s.desc.decls.len() || !ids_ok {
                    rep.report(Violation {
                        property: "C12".into(),
                        sig: "json-output-differs-from-source".into(),
                        detail: json!({"state": state_detail(s, text), "presentation": name}),
                    });
                }
            }
            Err(e) => rep.report(Violation {
                property: "C12".into(),
                sig: "json-output-is-not-json".into(),
                detail: json!({"state": state_detail(s, text), "presentation": name, "error": e.to_string()}),
            }),
        },
        Ok(Err(e)) => rep.report(Violation {
            property: "C12".into(),
            sig: "json-backend-error".into(),
            detail: json!({"state": state_detail(s, text), "presentation": name, "error": e.to_string()}),
        }),
        Err(p) => rep.report(Violation {
            property: "C12".into(),
            sig: format!("json-backend-panic msg={}", norm_panic(&p)),
            detail: json!({"state": state_detail(s, text), "presentation": name, "panic": p}),
        }),
    }
}

fn path_kind(p: &str) -> String {
    // d3.f1.cond -> d.f.cond
    p.chars().filter(|c| !c.is_ascii_digit()).collect()
}

fn count_comments(text: &str) -> usize {
    // comments only occur in separators the renderer wrote: count openers outside strings
    let b = text.as_bytes();
    let mut i = 0;
    let mut n = 0;
    let mut in_str = false;
    while i < b.len() {
        if in_str {
            if b[i] == b'"' {
                in_str = false;
            }
            i += 1;
            continue;
        }
        match b[i] {
            b'"' => {
                in_str = true;
                i += 1;
            }
            b'/' if i + 1 < b.len() && b[i + 1] == b'*' => {
                n += 1;
                match text[i + 2..].find("*/") {
                    Some(e) => i = i + 2 + e + 2,
                    None => i = b.len(),
                }
            }
            b'/' if i + 1 < b.len() && b[i + 1] == b'/' => {
                n += 1;
                match text[i..].find('\n') {
                    Some(e) => i += e + 1,
                    None => i = b.len(),
                }
            }
            _ => i += 1,
        }
    }
    n
}

pub const EDIT_TOKENS: [&str; 36] = [
    "enum", "packet", "struct", "group", "checksum", "custom_field", "test", "{", "}", "(", ")", "[", "]", ":", ",",
    "=", "..", "+1", "if", "x", "E", "8", "0x1f", "\"s\"", "_payload_", "_body_", "_size_", "_count_", "_fixed_",
    "_reserved_", "_padding_", "_checksum_start_", "_elementsize_", "little_endian_packets", "/*", "\"",
];

fn join(tokens: &[String]) -> String {
    let mut s = String::new();
    for (i, t) in tokens.iter().enumerate() {
        if i > 0 {
            s.push(' ');
        }
        s.push_str(t);
    }
    s.push('\n');
    s
}

/// All single-token edits of the canonical rendering (restricted to the tokens of `own`
/// declarations when given).
pub fn token_edits(d: &Desc, own: Option<&std::collections::BTreeSet<usize>>) -> Vec<(String, String)> {
    let base = render::render(d, &Pres::default());
    let toks: Vec<String> = base.toks.iter().map(|t| t.text.clone()).collect();
    let mut out = vec![];
    let inside = |i: usize| match (own, base.tok_decl[i]) {
        (None, _) => true,
        (Some(set), Some(k)) => set.contains(&k),
        (Some(_), None) => false,
    };
    for i in 0..toks.len() {
        if !inside(i) {
            continue;
        }
        let mut t = toks.clone();
        t.remove(i);
        out.push((format!("delete:{}", tok_class(&base.toks[i])), join(&t)));
        let mut t = toks.clone();
        t.insert(i, toks[i].clone());
        out.push((format!("duplicate:{}", tok_class(&base.toks[i])), join(&t)));
        if i + 1 < toks.len() {
            let mut t = toks.clone();
            t.swap(i, i + 1);
            out.push(("swap".to_string(), join(&t)));
            // glue to the next token (no separator at all)
            let mut t = toks.clone();
            let merged = format!("{}{}", toks[i], toks[i + 1]);
            t[i] = merged;
            t.remove(i + 1);
            out.push(("glue".to_string(), join(&t)));
        }
        for e in EDIT_TOKENS {
            if e == toks[i] {
                continue;
            }
            let mut t = toks.clone();
            t[i] = e.to_string();
            out.push((format!("replace-by:{e}"), join(&t)));
        }
    }
    out
}

fn tok_class(t: &render::Tok) -> &'static str {
    match t.kind {
        TokKind::Keyword => "keyword",
        TokKind::Ident => "identifier",
        TokKind::Int => "integer",
        TokKind::Punct => "punctuation",
        TokKind::Str => "string",
        TokKind::SizeMod => "size-modifier",
    }
}

fn check_near_miss(s: &State, edit: &str, text: &str, rep: &mut Reporter, c: &mut Counters) {
    c.inc("near-miss");
    let model_accepts = Rec::accepts(text);
    let mut sources = ast::SourceDatabase::new();
    let parsed = drive::guarded(|| parser::parse_inline(&mut sources, "stdin", text.to_string()));
    let edit_kind = edit.to_string();
    match parsed {
        Err(p) => rep.report(Violation {
            property: "C12".into(),
            sig: format!("parser-panic msg={}", norm_panic(&p)),
            detail: json!({"state": state_detail(s, text), "edit": edit, "panic": p}),
        }),
        Ok(Ok(_)) => {
            c.inc("outcome:near-miss-accepted");
            if !model_accepts {
                rep.report(Violation {
                    property: "C12".into(),
                    sig: format!("non-grammar-text-accepted edit={edit_kind}"),
                    detail: json!({"source": text, "edit": edit, "family": s.family}),
                });
            }
        }
        Ok(Err(d)) => {
            c.inc("outcome:near-miss-rejected");
            // a literal that does not fit usize is a lexical error of the implementation
            let overflow = d.message.contains("cannot convert");
            if model_accepts && !overflow {
                rep.report(Violation {
                    property: "C12".into(),
                    sig: format!("grammar-text-rejected edit={edit_kind}"),
                    detail: json!({"source": text, "edit": edit, "family": s.family, "message": d.message}),
                });
            }
            if d.message.is_empty() {
                rep.report(Violation {
                    property: "C12".into(),
                    sig: "rejected-without-diagnostic-message".into(),
                    detail: json!({"source": text, "edit": edit}),
                });
            }
        }
    }
}

pub fn check_c12(tier: Tier) -> i32 {
    let mut ev = Evidence::new("C12", tier_name(tier));
    let e = explore(tier);
    fill_graph_evidence(&mut ev, &e);
    let helpers = helper_decls(&e);
    let (pres_depth, edit_depth) = match tier {
        Tier::Quick => (2usize, 1usize),
        Tier::Thorough => (3, 2),
    };
    let results: Vec<(Reporter, Counters)> = e
        .states
        .par_chunks(64)
        .map(|chunk| {
            let mut rep = Reporter::new("C12");
            let mut c = Counters::new();
            for s in chunk {
                let base = render::render(&s.desc, &Pres::default());
                check_parse(s, "canonical", &base, &mut rep, &mut c);
                let own = own_decls(s, &helpers);
                if s.depth <= pres_depth {
                    for (name, p) in single_deviations(&s.desc, own.as_ref(), tier) {
                        let r = render::render(&s.desc, &p);
                        c.inc("presentations");
                        check_parse(s, &name, &r, &mut rep, &mut c);
                    }
                }
                if s.depth <= edit_depth {
                    for (edit, text) in token_edits(&s.desc, own.as_ref()) {
                        check_near_miss(s, &edit, &text, &mut rep, &mut c);
                    }
                }
            }
            (rep, c)
        })
        .collect();
    let mut rep = Reporter::new("C12");
    let mut c = Counters::new();
    for (r, k) in results {
        rep.merge(r);
        c.merge(k);
    }
    // print the parsed AST back as PDL and parse again: covered by the canonical run of every
    // state (the canonical text *is* the printed form of the IR the AST converts to).
    ev.set("traces_validated_against_impl", json!(c.map.get("parses").copied().unwrap_or(0) + c.map.get("near-miss").copied().unwrap_or(0)));
    ev.set("presentations", json!(c.map.get("presentations").copied().unwrap_or(0)));
    ev.set("source_ranges_checked", json!(c.map.get("ranges").copied().unwrap_or(0)));
    ev.set("near_miss_texts", json!(c.map.get("near-miss").copied().unwrap_or(0)));
    ev.set("rule", json!(format!("every state is rendered canonically and (depth <= {pres_depth}) with every single deviation (separator of one gap incl. tabs, CR LF, comments, multi-byte comments, no separator; radix of one literal; one trailing comma; a prefix); parse_inline must return an AST that converts back to exactly the explorer's IR, every node's range must start at the node, cover its text, extend only over whitespace/comments, and have line/column consistent with the offset; comments must be reported with their text; the JSON backend must list the same declarations. For states of depth <= {edit_depth} every single-token edit (delete, duplicate, swap, glue, replace by each of {} tokens) is classified by an independent recognizer of the reference grammar and the parser must agree on accept/reject", EDIT_TOKENS.len())));
    ev.assumptions = vec![
        "the recognizer (mc/core/src/recognizer.rs) is the trusted reading of the grammar in doc/reference.md, with the extensions listed at its top".into(),
        "a source range may extend over trailing whitespace and comments (pest includes the implicit skip in front of an unmatched optional part); it must start exactly at the node".into(),
    ];
    let samples = e.states.iter().filter(|s| s.depth == 1).step_by(997).take(3).map(|s| {
        let devs = single_deviations(&s.desc, None, tier);
        let k = devs.len() / 2;
        json!({"deviation": devs[k].0, "source": render::render(&s.desc, &devs[k].1).text})
    }).collect();
    finish(ev, rep, c, samples)
}

// =============================================================================== C10

fn lang_of(b: Backend) -> Lang {
    match b {
        Backend::Json => Lang::Json,
        Backend::Rust => Lang::Rust,
        Backend::Python => Lang::Python,
        Backend::Cxx => Lang::Cxx,
        Backend::Java => Lang::Java,
    }
}

/// hand-built ASTs that no text can produce
fn absurd_asts() -> Vec<(String, ast::File)> {
    use ast::*;
    let loc = SourceRange::default();
    let mut out = vec![];
    let mk = |decls: Vec<DeclDesc>| -> File {
        let mut f = File::new(0);
        let mut key = 0;
        for d in decls {
            let mut d = d;
            if let DeclDesc::Packet { fields, .. } | DeclDesc::Struct { fields, .. } | DeclDesc::Group { fields, .. } = &mut d {
                for fl in fields.iter_mut() {
                    fl.key = FieldKey(key);
                    key += 1;
                }
            }
            f.declarations.push(Decl { loc, key: DeclKey(key), desc: d });
            key += 1;
        }
        f.max_key = key;
        f
    };
    let fld = |desc: FieldDesc| Field { loc, key: FieldKey(0), desc, cond: None };
    let pk = |id: &str, fields: Vec<Field>| DeclDesc::Packet { id: id.into(), constraints: vec![], fields, parent_id: None };
    out.push(("test-of-undeclared".into(), mk(vec![DeclDesc::Test { type_id: "Nope".into(), test_cases: vec![] }])));
    out.push((
        "test-of-enum".into(),
        mk(vec![
            DeclDesc::Enum { id: "E".into(), tags: vec![Tag::Value(TagValue { id: "A".into(), loc, value: 1 })], width: 8 },
            DeclDesc::Test { type_id: "E".into(), test_cases: vec![TestCase { loc, input: "00".into() }] },
        ]),
    ));
    out.push(("test-of-packet".into(), mk(vec![pk("P", vec![]), DeclDesc::Test { type_id: "P".into(), test_cases: vec![] }])));
    out.push(("empty-enum".into(), mk(vec![DeclDesc::Enum { id: "E".into(), tags: vec![], width: 8 }])));
    out.push(("zero-width-enum".into(), mk(vec![DeclDesc::Enum { id: "E".into(), tags: vec![Tag::Value(TagValue { id: "A".into(), loc, value: 0 })], width: 0 }])));
    out.push(("huge-width-scalar".into(), mk(vec![pk("P", vec![fld(FieldDesc::Scalar { id: "a".into(), width: usize::MAX })])])));
    out.push(("two-huge-scalars".into(), mk(vec![pk("P", vec![fld(FieldDesc::Scalar { id: "a".into(), width: usize::MAX }), fld(FieldDesc::Scalar { id: "b".into(), width: usize::MAX })])])));
    out.push(("huge-array".into(), mk(vec![pk("P", vec![fld(FieldDesc::Array { id: "a".into(), width: Some(usize::MAX / 2), type_id: None, size_modifier: None, size: Some(4) })])])));
    out.push(("array-without-element".into(), mk(vec![pk("P", vec![fld(FieldDesc::Array { id: "a".into(), width: None, type_id: None, size_modifier: None, size: None })])])));
    out.push(("array-with-both".into(), mk(vec![pk("P", vec![fld(FieldDesc::Array { id: "a".into(), width: Some(8), type_id: Some("P".into()), size_modifier: Some("+x".into()), size: Some(1) })])])));
    out.push(("pre-desugared-flag".into(), mk(vec![pk("P", vec![fld(FieldDesc::Flag { id: "c".into(), optional_field_ids: vec![("nope".into(), 7)] }), fld(FieldDesc::Reserved { width: 7 })])])));
    out.push(("huge-padding".into(), mk(vec![pk("P", vec![fld(FieldDesc::Array { id: "a".into(), width: Some(8), type_id: None, size_modifier: None, size: None }), fld(FieldDesc::Padding { size: usize::MAX })])])));
    out.push(("constraint-without-value".into(), mk(vec![pk("A", vec![fld(FieldDesc::Scalar { id: "a".into(), width: 8 }), fld(FieldDesc::Payload { size_modifier: None })]), DeclDesc::Packet { id: "B".into(), constraints: vec![Constraint { id: "a".into(), loc, value: None, tag_id: None }], fields: vec![], parent_id: Some("A".into()) }])));
    out.push(("cond-without-value".into(), mk(vec![pk("P", vec![fld(FieldDesc::Scalar { id: "c".into(), width: 1 }), fld(FieldDesc::Reserved { width: 7 }), Field { loc, key: FieldKey(0), desc: FieldDesc::Scalar { id: "x".into(), width: 8 }, cond: Some(Constraint { id: "c".into(), loc, value: None, tag_id: None }) }])])));
    out.push(("bad-size-modifier".into(), mk(vec![pk("P", vec![fld(FieldDesc::Size { field_id: "_payload_".into(), width: 8 }), fld(FieldDesc::Payload { size_modifier: Some("banana".into()) })])])));
    out.push(("group-with-parent-cycle".into(), mk(vec![DeclDesc::Packet { id: "A".into(), constraints: vec![], fields: vec![], parent_id: Some("A".into()) }])));
    out
}

pub fn check_c10(tier: Tier) -> i32 {
    let mut ev = Evidence::new("C10", tier_name(tier));
    let e = explore(tier);
    fill_graph_evidence(&mut ev, &e);
    let helpers = helper_decls(&e);
    let edit_depth = match tier {
        Tier::Quick => 1usize,
        Tier::Thorough => 2,
    };
    let gen_depth = match tier {
        Tier::Quick => 2usize,
        Tier::Thorough => 9,
    };
    let java_root = std::path::PathBuf::from(format!("{}/work/c10-java", pdlmc_core::report::VERIF_DIR));
    let results: Vec<(Reporter, Counters, Vec<(String, String)>)> = e
        .states
        .par_chunks(64)
        .enumerate()
        .map(|(ci, chunk)| {
            let mut rep = Reporter::new("C10");
            let mut c = Counters::new();
            let mut py: Vec<(String, String)> = vec![];
            for s in chunk {
                let text = render::canonical(&s.desc);
                let run = drive::run_text(&text);
                c.inc("compilations");
                match &run.outcome {
                    Outcome::ParsePanic(p) | Outcome::AnalyzePanic(p) => {
                        c.inc("outcome:panic");
                        let stage = if matches!(run.outcome, Outcome::ParsePanic(_)) { "parse" } else { "analyze" };
                        rep.report(Violation {
                            property: "C10".into(),
                            sig: format!("panic stage={stage} msg={} triggers={:?}", norm_panic(p), rules::triggers(&s.desc)),
                            detail: json!({"state": state_detail(s, &text), "panic": p}),
                        });
                    }
                    Outcome::ParseErr(_) => c.inc("outcome:parse-error"),
                    Outcome::AnalyzeErr { .. } => c.inc("outcome:rejected"),
                    Outcome::Accepted => {
                        c.inc("outcome:accepted");
                        // (c) backends, on the well-formed supported subset
                        if s.depth <= gen_depth && rules::rules(&s.desc).is_empty() && rules::unspecified(&s.desc).is_none() {
                            if let Some(inl) = rules::inline_groups(&s.desc) {
                                for b in [Backend::Json, Backend::Rust, Backend::Python, Backend::Cxx, Backend::Java] {
                                    if let Some(_why) = support::unsupported(lang_of(b), &inl) {
                                        c.inc(&format!("unsupported:{}", b.name()));
                                        continue;
                                    }
                                    let dir = java_root.join(format!("t{ci}"));
                                    c.inc(&format!("generated:{}", b.name()));
                                    match drive::generate(b, &run, Some(&dir)) {
                                        Err(p) => rep.report(Violation {
                                            property: "C10".into(),
                                            sig: format!("panic stage=generate backend={} msg={} gtriggers={:?}", b.name(), norm_panic(&p), gen_triggers(&inl)),
                                            detail: json!({"state": state_detail(s, &text), "backend": b.name(), "panic": p}),
                                        }),
                                        Ok(code) => {
                                            if code.is_empty() {
                                                rep.report(Violation {
                                                    property: "C10".into(),
                                                    sig: format!("empty-output backend={}", b.name()),
                                                    detail: json!({"state": state_detail(s, &text), "backend": b.name()}),
                                                });
                                            }
                                            match b {
                                                Backend::Rust => {
                                                    c.inc("syntax-checked:rust");
                                                    if let Err(e) = syn::parse_file(&code) {
                                                        rep.report(Violation {
                                                            property: "C10".into(),
                                                            sig: "rust-output-does-not-parse".to_string(),
                                                            detail: json!({"state": state_detail(s, &text), "error": e.to_string()}),
                                                        });
                                                    }
                                                }
                                                Backend::Json => {
                                                    c.inc("syntax-checked:json");
                                                    if serde_json::from_str::<serde_json::Value>(&code).is_err() {
                                                        rep.report(Violation {
                                                            property: "C10".into(),
                                                            sig: "json-output-does-not-parse".to_string(),
                                                            detail: json!({"state": state_detail(s, &text)}),
                                                        });
                                                    }
                                                }
                                                Backend::Python => py.push((text.clone(), code)),
                                                _ => {}
                                            }
                                        }
                                    }
                                }
                            }
                        }
                    }
                }
                // (a) single-token edits of the source
                if s.depth <= edit_depth {
                    let own = own_decls(s, &helpers);
                    for (edit, t2) in token_edits(&s.desc, own.as_ref()) {
                        c.inc("edited-sources");
                        let r2 = drive::run_text(&t2);
                        match &r2.outcome {
                            Outcome::ParsePanic(p) | Outcome::AnalyzePanic(p) => {
                                let d2 = r2.parsed.as_ref().map(drive::from_ast);
                                let tr = d2.as_ref().map(rules::triggers).unwrap_or_default();
                                rep.report(Violation {
                                    property: "C10".into(),
                                    sig: format!("panic stage=edited-source msg={} triggers={:?}", norm_panic(p), tr),
                                    detail: json!({"source": t2, "edit": edit, "panic": p}),
                                })
                            }
                            _ => {}
                        }
                    }
                }
            }
            (rep, c, py)
        })
        .collect();
    let mut rep = Reporter::new("C10");
    let mut c = Counters::new();
    let mut py_all: Vec<(String, String)> = vec![];
    for (r, k, py) in results {
        rep.merge(r);
        c.merge(k);
        py_all.extend(py);
    }
    let _ = std::fs::remove_dir_all(&java_root);
    // (a') every token string of length <= n after the endianness line
    let n = if tier == Tier::Quick { 3 } else { 4 };
    let alphabet: Vec<&str> = EDIT_TOKENS.iter().copied().filter(|t| *t != "little_endian_packets").collect();
    let total: usize = (1..=n).map(|k| alphabet.len().pow(k as u32)).sum();
    let idx: Vec<usize> = (0..total).collect();
    let results: Vec<(Reporter, usize)> = idx
        .par_chunks(4096)
        .map(|chunk| {
            let mut rep = Reporter::new("C10");
            let mut cnt = 0;
            for &i in chunk {
                // decode i into a token string
                let mut k = 1;
                let mut rem = i;
                loop {
                    let block = alphabet.len().pow(k as u32);
                    if rem < block {
                        break;
                    }
                    rem -= block;
                    k += 1;
                }
                let mut toks = vec![];
                for _ in 0..k {
                    toks.push(alphabet[rem % alphabet.len()]);
                    rem /= alphabet.len();
                }
                let text = format!("little_endian_packets\n{}\n", toks.join(" "));
                cnt += 1;
                let r = drive::run_text(&text);
                if let Outcome::ParsePanic(p) | Outcome::AnalyzePanic(p) = &r.outcome {
                    rep.report(Violation {
                        property: "C10".into(),
                        sig: format!("panic stage=token-string msg={}", norm_panic(p)),
                        detail: json!({"source": text, "panic": p}),
                    });
                }
            }
            (rep, cnt)
        })
        .collect();
    for (r, k) in results {
        rep.merge(r);
        c.add("token-strings", k);
    }
    // (b') hand-built ASTs
    for (name, f) in absurd_asts() {
        c.inc("hand-built-asts");
        match drive::analyze_ast(&f) {
            Err(p) => rep.report(Violation {
                property: "C10".into(),
                sig: format!("panic stage=analyze-hand-built-ast case={name} msg={}", norm_panic(&p)),
                detail: json!({"case": name, "panic": p}),
            }),
            Ok(_) => {}
        }
    }
    // (c') the Rust output must compile against pdl-runtime: the harness build of the rust
    // engine; a module rustc rejects is attributed to its state
    {
        let mut h = crate::rustgen::prepare(tier);
        if !crate::rustgen::build(&mut h) {
            return 2;
        }
        c.add("compiled:rust-modules", h.modules - h.excluded.iter().filter(|x| x.2.starts_with("rustc")).count());
        for (id, en, why) in &h.excluded {
            if !why.starts_with("rustc") {
                continue; // generator panics are reported by (c)
            }
            let st = &h.states[*id];
            let inl = rules::inline_groups(&st.desc).unwrap_or_else(|| st.desc.clone());
            rep.report(Violation {
                property: "C10".into(),
                sig: format!("rust-output-does-not-compile error={} ctriggers={:?}", norm_rustc(why), compile_triggers(&inl)),
                detail: json!({"state": id, "family": st.family, "endianness": en, "source": render::canonical(&st.desc), "rustc": why}),
            });
        }
    }
    // python outputs: one interpreter compiles them all
    let py_checked = compile_python(&py_all, &mut rep);
    c.add("syntax-checked:python", py_checked);
    ev.set("traces_validated_against_impl", json!(c.map.get("compilations").copied().unwrap_or(0) + c.map.get("edited-sources").copied().unwrap_or(0) + c.map.get("token-strings").copied().unwrap_or(0)));
    ev.set("rule", json!(format!("(a) every single-token edit of the canonical source of every state of depth <= {edit_depth} and every string of <= {n} tokens over a {}-token alphabet is parsed and analyzed under catch_unwind; (b) every state of the graph (well-formed or not) and {} hand-built ASTs are analyzed; (c) for every accepted, model-well-formed state of depth <= {gen_depth} each backend whose documented construct list admits it (json, rust, python, cxx, java) must return code; Rust output must parse with syn, JSON with serde_json, Python with compile(); compilation of Rust/C++/Java output against the runtimes is done by the compiled tiers (C01.., C14, C19)", alphabet.len(), absurd_asts().len())));
    ev.assumptions = vec![
        "non-termination is decided only up to the wall clock of the run; stack overflow would abort the run (exit 2)".into(),
        "the supported-construct predicates are in mc/core/src/support.rs".into(),
    ];
    let samples = vec![json!({"edit": "replace-by:..", "source": token_edits(&e.states[0].desc, None).get(7).map(|x| x.1.clone())})];
    finish(ev, rep, c, samples)
}

fn norm_rustc(why: &str) -> String {
    // "rustc: shard_03/src/gen/m12_le.rs:10:5: error[E0425]: cannot find value `x_size` in this scope: ..."
    let msg = match why.find("error") {
        Some(p) => &why[p..],
        None => why,
    };
    let mut out = String::new();
    let mut in_tick = false;
    for ch in msg.chars().take(110) {
        match ch {
            '`' => {
                in_tick = !in_tick;
                out.push('`');
            }
            _ if in_tick => {}
            '0'..='9' if !out.ends_with("error[E") && !out.chars().last().map(|c| c.is_ascii_digit()).unwrap_or(false) => out.push(ch),
            _ => out.push(ch),
        }
    }
    out
}

/// trigger predicates of the known findings about uncompilable Rust output
pub fn compile_triggers(d: &Desc) -> Vec<&'static str> {
    let mut t: Vec<&'static str> = vec![];
    let mut add = |x: &'static str| {
        if !t.contains(&x) {
            t.push(x)
        }
    };
    for decl in &d.decls {
        let fields = decl.fields();
        for (i, f) in fields.iter().enumerate() {
            match &f.kind {
                FieldKind::Size { field_id, .. } | FieldKind::Count { field_id, .. } => {
                    // declared after its target
                    let target = fields.iter().position(|g| match &g.kind {
                        FieldKind::Payload { .. } => field_id == "_payload_",
                        FieldKind::Body => field_id == "_body_",
                        _ => g.id() == Some(field_id.as_str()),
                    });
                    if target.map(|p| p < i).unwrap_or(false) {
                        add("size-or-count-field-after-its-target");
                    }
                }
                FieldKind::ElementSize { field_id, .. } => {
                    if let Some(Field { kind: FieldKind::Array { elem, .. }, .. }) = fields.iter().find(|g| g.id() == Some(field_id.as_str())) {
                        let is_struct = matches!(elem, Elem::Type(t2) if d.get(t2).map(|x| x.is_struct()).unwrap_or(false));
                        if !is_struct {
                            add("elementsize-of-scalar-or-enum-elements");
                        }
                    }
                }
                FieldKind::Array { elem: Elem::Type(t2), .. } => {
                    if d.get(t2).map(|x| x.is_struct()).unwrap_or(false) && pdlmc_core::sizes::total_size(d, t2) == pdlmc_core::sizes::Size::Static(0) {
                        add("array-of-zero-size-structs");
                    }
                }
                FieldKind::Payload { .. } | FieldKind::Body => {
                    if fields[i + 1..].iter().any(|g| !matches!(pdlmc_core::sizes::field_size(d, decl, g), pdlmc_core::sizes::Size::Static(_)))
                        && pdlmc_core::sizes::field_size(d, decl, f) == pdlmc_core::sizes::Size::Unknown
                    {
                        add("unsized-payload-followed-by-a-non-constant-size-field");
                    }
                }
                _ => {}
            }
        }
        if let Some(p) = decl.parent().and_then(|p| d.get(p)) {
            if p.payload().is_none() {
                add("child-of-parent-without-payload");
            }
            // an ancestor has a non-Copy data field (array or struct typedef) that the child inherits
            for a in d.ancestry(&decl.id).iter().skip(1) {
                for f in a.fields() {
                    let non_copy = match &f.kind {
                        FieldKind::Array { .. } => true,
                        FieldKind::Typedef { type_id, .. } => d.get(type_id).map(|x| x.is_struct()).unwrap_or(false),
                        _ => false,
                    };
                    if non_copy {
                        add("child-inherits-an-array-or-struct-field");
                    }
                }
            }
        }
    }
    t
}

/// trigger predicates of the known generator findings
pub fn gen_triggers(d: &Desc) -> Vec<&'static str> {
    let mut t = vec![];
    for decl in &d.decls {
        if let DeclKind::Enum { tags, .. } = &decl.kind {
            if !tags.iter().any(|x| !matches!(x, Tag::Other { .. })) {
                t.push("enum-with-only-a-default-tag");
            }
        }
    }
    let m = pdlmc_core::model::Model::new(d);
    for (i, decl) in d.decls.iter().enumerate() {
        for f in decl.fields() {
            if let FieldKind::Array { elem: Elem::Type(t2), shape: Shape::Unsized | Shape::Modifier(_), .. } = &f.kind {
                if d.decls.iter().position(|x| &x.id == t2).map(|p| p > i).unwrap_or(false) && !t.contains(&"array-element-declared-later") {
                    t.push("array-element-declared-later");
                }
            }
        }
        if decl.is_pkt_or_struct() && d.children(&decl.id).next().is_some() {
            if m.specialize_uses_size(&decl.id).is_none() && !t.contains(&"children-cannot-be-told-apart") {
                t.push("children-cannot-be-told-apart");
            }
            if decl.payload().is_none() && !t.contains(&"child-of-parent-without-payload") {
                t.push("child-of-parent-without-payload");
            }
        }
        for f in decl.fields() {
            if let FieldKind::Array { elem: Elem::Type(t2), .. } = &f.kind {
                if reaches(d, t2, &decl.id, 0) && !t.contains(&"self-referential-array") {
                    t.push("self-referential-array");
                }
            }
            if matches!(f.kind, FieldKind::Body) && !t.contains(&"body-field") {
                t.push("body-field");
            }
            if let FieldKind::ElementSize { field_id, width } = &f.kind {
                // an element-size field (or the size field of the same array) that is not a
                // whole number of octets wide
                let odd_size = decl.fields().iter().any(|g| matches!(&g.kind, FieldKind::Size { field_id: t2, width: w2 } if t2 == field_id && w2 % 8 != 0));
                if (width % 8 != 0 || odd_size) && !t.contains(&"elementsize-with-non-octet-width") {
                    t.push("elementsize-with-non-octet-width");
                }
                let scalar_elems = decl.fields().iter().any(|g| matches!(&g.kind, FieldKind::Array { id, elem, .. } if id == field_id && (matches!(elem, Elem::Width(_)) || matches!(elem, Elem::Type(t3) if matches!(d.get(t3).map(|x| &x.kind), Some(DeclKind::Enum { .. }))))));
                if scalar_elems && !t.contains(&"elementsize-of-scalar-or-enum-elements") {
                    t.push("elementsize-of-scalar-or-enum-elements");
                }
            }
        }
    }
    t
}

/// does declaration `from` contain (through typedefs, arrays or its parent) declaration `to`?
fn reaches(d: &Desc, from: &str, to: &str, depth: usize) -> bool {
    if from == to {
        return true;
    }
    if depth > 6 {
        return false;
    }
    match d.get(from) {
        None => false,
        Some(x) => {
            x.parent().map(|p| reaches(d, p, to, depth + 1)).unwrap_or(false)
                || x.fields().iter().any(|f| match &f.kind {
                    FieldKind::Typedef { type_id, .. } | FieldKind::Array { elem: Elem::Type(type_id), .. } => {
                        reaches(d, type_id, to, depth + 1)
                    }
                    _ => false,
                })
        }
    }
}

fn compile_python(items: &[(String, String)], rep: &mut Reporter) -> usize {
    if items.is_empty() {
        return 0;
    }
    let dir = format!("{}/work/c10-py", pdlmc_core::report::VERIF_DIR);
    let _ = std::fs::remove_dir_all(&dir);
    std::fs::create_dir_all(&dir).expect("mkdir");
    // distinct outputs only
    let mut seen: HashSet<u64> = HashSet::new();
    let mut n = 0;
    let mut index: Vec<&(String, String)> = vec![];
    for it in items {
        let h = fnv1a(it.1.as_bytes());
        if seen.insert(h) {
            std::fs::write(format!("{dir}/m{n}.py"), &it.1).expect("write");
            index.push(it);
            n += 1;
        }
    }
    let script = "import sys,os\nd=sys.argv[1]\nfor f in sorted(os.listdir(d)):\n    if not f.endswith('.py'): continue\n    try:\n        compile(open(os.path.join(d,f)).read(), f, 'exec')\n    except SyntaxError as e:\n        print('BAD', f, e)\nprint('DONE')\n";
    let out = std::process::Command::new("python3").arg("-c").arg(script).arg(&dir).output();
    match out {
        Ok(o) => {
            let so = String::from_utf8_lossy(&o.stdout);
            if !so.contains("DONE") {
                eprintln!("machinery: python syntax check did not finish: {}", String::from_utf8_lossy(&o.stderr));
                std::process::exit(2);
            }
            for line in so.lines().filter(|l| l.starts_with("BAD")) {
                let k: usize = line.split_whitespace().nth(1).and_then(|f| f.trim_start_matches('m').trim_end_matches(".py").parse().ok()).unwrap_or(0);
                rep.report(Violation {
                    property: "C10".into(),
                    sig: "python-output-does-not-compile".into(),
                    detail: json!({"source": index[k].0, "error": line}),
                });
            }
        }
        Err(e) => {
            eprintln!("machinery: cannot run python3: {e}");
            std::process::exit(2);
        }
    }
    let _ = std::fs::remove_dir_all(&dir);
    n
}
