//! C11: compilation is a deterministic pure function of the source.
//!  (b) seed alphabet: the real `pdlc` under an interposed getrandom, VERIF_HASH_SEED in 0..N:
//!      byte-identical stdout, and identical to the in-process library call;
//!  (c) histories: every sequence (length <= 3) of (description, backend) compilations in one
//!      process sharing one SourceDatabase reproduces the single-shot outputs;
//!  (d) derive == CLI: the token stream the derive macros splice (generate_tokens) equals the
//!      tokens of the text the CLI prints (generate), for every state;
//!  (e) exclusion: `--exclude-declaration L` for every set of leaf declarations equals compiling
//!      the source with those declarations deleted.

use crate::drive::{self, Backend, Outcome};
use crate::front::{explore, tier_name};
use pdl_compiler::{analyzer, ast, backends, parser};
use pdlmc_core::evidence::Evidence;
use pdlmc_core::graph::Tier;
use pdlmc_core::ir::*;
use pdlmc_core::render;
use pdlmc_core::report::{Reporter, Violation, VERIF_DIR};
use pdlmc_core::rules;
use pdlmc_core::select::{self, Selected};
use pdlmc_core::support::{unsupported, Lang};
use rayon::prelude::*;
use serde_json::json;
use std::collections::BTreeMap;
use std::path::{Path, PathBuf};
use std::process::Command;

fn build_tools() -> Option<(PathBuf, PathBuf, PathBuf)> {
    let work = PathBuf::from(format!("{VERIF_DIR}/work"));
    std::fs::create_dir_all(&work).ok()?;
    // the real command line tool, from /repo's working tree
    let st = Command::new("cargo")
        .args(["build", "--release", "--offline", "-q", "--manifest-path", "/repo/Cargo.toml", "-p", "pdl-compiler", "--bin", "pdlc", "--features", "java"])
        .env("CARGO_TARGET_DIR", work.join("target-pdlc"))
        .env("CARGO_NET_OFFLINE", "true")
        .status()
        .ok()?;
    if !st.success() {
        eprintln!("machinery: cannot build pdlc");
        return None;
    }
    let pdlc = work.join("target-pdlc/release/pdlc");
    let shim = work.join("getrandom_shim.so");
    let probe = work.join("hash_probe");
    let src = format!("{VERIF_DIR}/drivers/shim");
    if !shim.exists() {
        let st = Command::new("gcc").args(["-shared", "-fPIC", "-O2", "-o"]).arg(&shim).arg(format!("{src}/getrandom_shim.c")).arg("-ldl").status().ok()?;
        if !st.success() {
            return None;
        }
    }
    if !probe.exists() {
        let st = Command::new("rustc").args(["-O", "-o"]).arg(&probe).arg(format!("{src}/probe.rs")).status().ok()?;
        if !st.success() {
            return None;
        }
    }
    Some((pdlc, shim, probe))
}

fn run_pdlc(pdlc: &Path, shim: &Path, dir: &Path, seed: Option<usize>, args: &[&str]) -> (i32, Vec<u8>) {
    let mut c = Command::new(pdlc);
    c.current_dir(dir).args(args).env("RUST_BACKTRACE", "0");
    if let Some(s) = seed {
        c.env("LD_PRELOAD", shim).env("VERIF_HASH_SEED", s.to_string());
    }
    match c.output() {
        Ok(o) => (o.status.code().unwrap_or(-1), o.stdout),
        Err(_) => (-2, vec![]),
    }
}

fn leaves(d: &Desc) -> Vec<String> {
    let mut used: std::collections::HashSet<String> = std::collections::HashSet::new();
    for decl in &d.decls {
        if let Some(p) = decl.parent() {
            used.insert(p.to_string());
        }
        for f in decl.fields() {
            match &f.kind {
                FieldKind::Typedef { type_id, .. } | FieldKind::Array { elem: Elem::Type(type_id), .. } => {
                    used.insert(type_id.clone());
                }
                FieldKind::FixedEnum { enum_id, .. } => {
                    used.insert(enum_id.clone());
                }
                FieldKind::Group { group_id, .. } => {
                    used.insert(group_id.clone());
                }
                _ => {}
            }
        }
    }
    // unreferenced, childless, and not a child itself of something we keep (a child may go: its
    // parent's specialize changes, which is "related by inheritance"; such parents are then
    // compared only through the deletion twin, which also lacks the child)
    d.decls.iter().filter(|x| !used.contains(&x.id)).map(|x| x.id.clone()).collect()
}

pub fn check(tier: Tier) -> i32 {
    let mut ev = Evidence::new("C11", tier_name(tier));
    let (pdlc, shim, probe) = match build_tools() {
        Some(t) => t,
        None => return 2,
    };
    let e = explore(tier);
    let sel = select::select(&e, tier, Lang::Json, &|_, _| true);
    ev.set("states", json!(e.states.len()));
    ev.set("transitions", json!(e.transitions));
    // quick: every 4th selected state for the process-level parts
    let stride = if tier == Tier::Quick { 4 } else { 16 };
    let proc_states: Vec<&Selected> = sel.states.iter().step_by(stride).collect();
    let seeds: usize = if tier == Tier::Quick { 12 } else { 24 };
    ev.set("compiled_states", json!(sel.states.len()));
    ev.set("process_level_states", json!(proc_states.len()));
    ev.set("seeds", json!(seeds));
    // how many of the n! iteration orders does the seed alphabet realise?
    let mut orders: Vec<std::collections::BTreeSet<String>> = vec![Default::default(); 3];
    for s in 0..seeds {
        if let Ok(o) = Command::new(&probe).env("LD_PRELOAD", &shim).env("VERIF_HASH_SEED", s.to_string()).output() {
            for (i, w) in String::from_utf8_lossy(&o.stdout).split_whitespace().enumerate().take(3) {
                orders[i].insert(w.to_string());
            }
        }
    }
    ev.set("hash_orders_realised_by_seed_alphabet", json!({"2-key maps (of 2)": orders[0].len(), "3-key maps (of 6)": orders[1].len(), "4-key maps (of 24)": orders[2].len()}));
    if orders[1].len() < 2 {
        eprintln!("machinery: the getrandom shim does not control the hash seed");
        return 2;
    }
    let root = PathBuf::from(format!("{VERIF_DIR}/work/c11"));
    let _ = std::fs::remove_dir_all(&root);
    let backs: [(&str, Backend, Lang); 4] =
        [("rust", Backend::Rust, Lang::Rust), ("python", Backend::Python, Lang::Python), ("cxx", Backend::Cxx, Lang::Cxx), ("json", Backend::Json, Lang::Json)];

    // ---------------- (b) seeds + CLI vs library, (e) exclusion
    let results: Vec<(Reporter, BTreeMap<String, usize>)> = proc_states
        .par_iter()
        .map(|st| {
            let mut rep = Reporter::new("C11");
            let mut c: BTreeMap<String, usize> = BTreeMap::new();
            let dir = root.join(format!("s{}", st.id));
            std::fs::create_dir_all(&dir).ok();
            let text = render::canonical(&st.desc);
            std::fs::write(dir.join("t.pdl"), &text).ok();
            let inl = rules::inline_groups(&st.desc);
            let lib_run = drive::run_text_named(&text, "t.pdl");
            for (bname, b, lang) in backs.iter() {
                if inl.as_ref().map(|i| unsupported(*lang, i).is_some()).unwrap_or(true) {
                    continue;
                }
                let args = ["--output-format", bname, "t.pdl"];
                let (code0, out0) = run_pdlc(&pdlc, &shim, &dir, Some(0), &args);
                *c.entry("process-runs".into()).or_default() += 1;
                *c.entry(format!("outcome:exit-{}", if code0 == 0 { "0" } else { "nonzero" })).or_default() += 1;
                for s in 1..seeds {
                    let (code, out) = run_pdlc(&pdlc, &shim, &dir, Some(s), &args);
                    *c.entry("process-runs".into()).or_default() += 1;
                    if code != code0 || out != out0 {
                        rep.report(Violation {
                            property: "C11".into(),
                            sig: format!("output-depends-on-hash-seed backend={bname}"),
                            detail: json!({"source": text, "seed_a": 0, "seed_b": s, "exit_a": code0, "exit_b": code,
                                "first_difference_at": out.iter().zip(out0.iter()).position(|(a, b)| a != b)}),
                        });
                        break;
                    }
                }
                // CLI == library call (the CLI prints the library's string and a newline)
                if let Outcome::Accepted = lib_run.outcome {
                    if let Ok(lib) = drive::generate(*b, &lib_run, None) {
                        *c.entry("cli-vs-library".into()).or_default() += 1;
                        let mut want = lib.into_bytes();
                        want.push(b'\n');
                        if code0 != 0 || out0 != want {
                            rep.report(Violation {
                                property: "C11".into(),
                                sig: format!("cli-output-differs-from-library-call backend={bname}"),
                                detail: json!({"source": text, "exit": code0}),
                            });
                        }
                    }
                }
            }
            // (e) exclusion == deletion
            let lv = leaves(&st.desc);
            if st.desc.decls.len() <= 7 && !lv.is_empty() && lv.len() <= 3 {
                for mask in 1u32..(1 << lv.len()) {
                    let ex: Vec<&String> = lv.iter().enumerate().filter(|(i, _)| mask & (1 << i) != 0).map(|(_, x)| x).collect();
                    let d2 = Desc { endian: st.desc.endian, decls: st.desc.decls.iter().filter(|d| !ex.contains(&&d.id)).cloned().collect() };
                    if !rules::rules(&d2).is_empty() {
                        continue;
                    }
                    let dir2 = dir.join(format!("x{mask}"));
                    std::fs::create_dir_all(&dir2).ok();
                    std::fs::write(dir2.join("t.pdl"), render::canonical(&d2)).ok();
                    let inl2 = rules::inline_groups(&d2);
                    for (bname, _b, lang) in backs.iter().take(3) {
                        if inl2.as_ref().map(|i| unsupported(*lang, i).is_some()).unwrap_or(true) {
                            continue;
                        }
                        let mut args: Vec<String> = vec!["--output-format".into(), bname.to_string()];
                        for x in &ex {
                            args.push("--exclude-declaration".into());
                            args.push(x.to_string());
                        }
                        args.push("t.pdl".into());
                        let a: Vec<&str> = args.iter().map(|s| s.as_str()).collect();
                        let (c1, o1) = run_pdlc(&pdlc, &shim, &dir, None, &a);
                        let (c2, o2) = run_pdlc(&pdlc, &shim, &dir2, None, &["--output-format", bname, "t.pdl"]);
                        *c.entry("exclusion-comparisons".into()).or_default() += 1;
                        // C++ and Python print the command line in their header: drop the header
                        let strip = |o: &[u8]| -> Vec<u8> {
                            let s = String::from_utf8_lossy(o);
                            s.lines().filter(|l| !(l.contains("pdlc") || l.contains("generated from") || l.contains("--exclude") || l.starts_with("//   ") || l.starts_with("#   "))).collect::<Vec<_>>().join("\n").into_bytes()
                        };
                        if c2 == 0 && (c1 != c2 || strip(&o1) != strip(&o2)) {
                            rep.report(Violation {
                                property: "C11".into(),
                                sig: format!("excluding-a-leaf-declaration-changes-unrelated-code backend={bname} exit={c1}"),
                                detail: json!({"source": text, "excluded": ex, "exit_excluded": c1, "exit_deleted": c2}),
                            });
                        }
                    }
                }
            }
            let _ = std::fs::remove_dir_all(&dir);
            (rep, c)
        })
        .collect();
    let mut rep = Reporter::new("C11");
    let mut counters: BTreeMap<String, usize> = BTreeMap::new();
    for (r, c) in results {
        rep.merge(r);
        for (k, v) in c {
            *counters.entry(k).or_default() += v;
        }
    }
    let _ = std::fs::remove_dir_all(&root);

    // ---------------- (d) derive == CLI: see derive_check (behavioural comparison through the real
    // #[pdl_inline] macro); a token-level comparison is not meaningful because prettyplease
    // normalises commas, semicolons and literal forms.
    // ---------------- (c) histories in one process sharing one SourceDatabase
    let hist_descs: Vec<&Selected> = {
        let mut v: Vec<&Selected> = vec![];
        for fam in ["IN", "AR", "OP", "EN", "GR", "ST"] {
            if let Some(s) = sel.states.iter().filter(|s| s.family == fam).last() {
                v.push(s);
            }
        }
        v
    };
    let alphabet: Vec<(usize, Backend)> = (0..hist_descs.len()).flat_map(|i| [Backend::Rust, Backend::Python, Backend::Cxx, Backend::Json].into_iter().map(move |b| (i, b))).collect();
    let single: BTreeMap<(usize, u8), Result<String, String>> = alphabet
        .iter()
        .map(|(i, b)| {
            let text = render::canonical(&hist_descs[*i].desc);
            let run = drive::run_text_named(&text, &format!("h{i}.pdl"));
            ((*i, *b as u8), if matches!(run.outcome, Outcome::Accepted) { drive::generate(*b, &run, None) } else { Err("rejected".into()) })
        })
        .collect();
    let len = if tier == Tier::Quick { 2 } else { 3 };
    let total = alphabet.len().pow(len as u32);
    let hres: Vec<(Reporter, usize)> = (0..total)
        .collect::<Vec<_>>()
        .par_chunks(256)
        .map(|chunk| {
            let mut rep = Reporter::new("C11");
            let mut n = 0;
            for &k in chunk {
                let mut seq = vec![];
                let mut r = k;
                for _ in 0..len {
                    seq.push(alphabet[r % alphabet.len()]);
                    r /= alphabet.len();
                }
                let mut sources = ast::SourceDatabase::new();
                for (step, (i, b)) in seq.iter().enumerate() {
                    let text = render::canonical(&hist_descs[*i].desc);
                    let out = drive::guarded(|| {
                        let file = parser::parse_inline(&mut sources, &format!("h{i}.pdl"), text.clone()).map_err(|e| e.message)?;
                        let analyzed = analyzer::analyze(&file).map_err(|_| "rejected".to_string())?;
                        Ok::<String, String>(match b {
                            Backend::Rust => backends::rust::generate(&sources, &analyzed, &[]),
                            Backend::Python => backends::python::generate(&sources, &analyzed, None, &[]),
                            Backend::Cxx => backends::cxx::generate(&sources, &analyzed, None, &[], &[], &[]),
                            _ => backends::json::generate(&file).map_err(|e| e.to_string())?,
                        })
                    });
                    n += 1;
                    let got: Result<String, String> = match out {
                        Ok(Ok(s)) => Ok(s),
                        Ok(Err(e)) => Err(e),
                        Err(p) => Err(p),
                    };
                    let want = &single[&(*i, *b as u8)];
                    let same = match (&got, want) {
                        (Ok(a), Ok(b)) => {
                            // the JSON backend prints the file id of the shared database
                            if matches!(b_kind(seq[step].1), 3) {
                                strip_file_ids(a) == strip_file_ids(b)
                            } else {
                                a == b
                            }
                        }
                        (Err(_), Err(_)) => true,
                        _ => false,
                    };
                    if !same {
                        rep.report(Violation {
                            property: "C11".into(),
                            sig: format!("output-depends-on-compilation-history backend={} step={step}", seq[step].1.name()),
                            detail: json!({"history": seq.iter().map(|(i, b)| format!("{}:{}", i, b.name())).collect::<Vec<_>>(), "source": text}),
                        });
                    }
                }
            }
            (rep, n)
        })
        .collect();
    for (r, n) in hres {
        rep.merge(r);
        *counters.entry("history-compilations".into()).or_default() += n;
    }
    // ---------------- (d) derive == CLI, behaviourally: the same states compiled twice into a
    // Rust harness, once from the text `pdlc` prints and once through the real
    // #[pdl_derive::pdl_inline] attribute macro; both harnesses run the observation mode (all
    // explored values encoded, the bounded byte-string space decoded) and the two observation
    // documents must be identical
    {
        let picked: Vec<Selected> = pick_derive_states(tier, &sel.states);
        let ids: Vec<usize> = picked.iter().map(|s| s.id).collect();
        let observe = |h: &mut crate::rustgen::Harness| -> Result<Vec<serde_json::Value>, String> {
            if !crate::rustgen::build(h) {
                return Err("the harness does not build".into());
            }
            match crate::rustgen::run_task_checked(h, 0, 0, "C07", tier, &ids) {
                crate::rustgen::TaskResult::Done(v) => Ok(v["observations"].as_array().cloned().unwrap_or_default()),
                crate::rustgen::TaskResult::Died { how, .. } => Err(format!("the harness died: {how}")),
                crate::rustgen::TaskResult::Machinery(m) => Err(m),
            }
        };
        let mut h_cli = crate::rustgen::prepare_on(tier, Some(picked.clone()));
        let cli = observe(&mut h_cli);
        let mut h_der = crate::rustgen::prepare_derive(tier, picked.clone());
        let der = observe(&mut h_der);
        match (cli, der) {
            (Ok(a), Ok(b)) => {
                let key = |o: &serde_json::Value| (o["state"].as_u64().unwrap_or(0), o["big"].as_bool().unwrap_or(false));
                let excluded_cli: Vec<(usize, String)> = h_cli.excluded.iter().map(|x| (x.0, x.1.clone())).collect();
                for oa in &a {
                    *counters.entry("derive-modules-compared".into()).or_default() += 1;
                    let ob = b.iter().find(|x| key(x) == key(oa));
                    let st = &picked[oa["state"].as_u64().unwrap_or(0) as usize];
                    let n_ops: usize = oa["types"].as_array().map(|t| t.iter().map(|x| x["values"].as_array().map(|v| v.len()).unwrap_or(0) + x["inputs"].as_array().map(|v| v.len()).unwrap_or(0)).sum()).unwrap_or(0);
                    *counters.entry("derive-operations-compared".into()).or_default() += n_ops;
                    match ob {
                        Some(ob) if ob["types"] == oa["types"] => {}
                        Some(ob) => {
                            // name the first type whose observations differ
                            let ty = oa["types"].as_array().and_then(|ta| ta.iter().zip(ob["types"].as_array().map(|x| x.as_slice()).unwrap_or(&[])).find(|(x, y)| x != y).map(|(x, _)| x["name"].as_str().unwrap_or("").to_string())).unwrap_or_default();
                            rep.report(Violation {
                                property: "C11".into(),
                                sig: "derive-macro-output-behaves-differently-from-cli-output".into(),
                                detail: json!({"source": render::canonical(&st.desc), "big_endian": oa["big"], "first_differing_type": ty}),
                            });
                        }
                        None => rep.report(Violation {
                            property: "C11".into(),
                            sig: "derive-macro-output-missing-where-cli-output-compiles".into(),
                            detail: json!({"source": render::canonical(&st.desc), "big_endian": oa["big"], "derive_excluded": h_der.excluded.iter().map(|x| x.2.clone()).take(3).collect::<Vec<_>>()}),
                        }),
                    }
                }
                let _ = excluded_cli;
            }
            (Ok(_), Err(e)) => rep.report(Violation {
                property: "C11".into(),
                sig: format!("derive-harness-fails-where-cli-harness-works why={}", e.chars().take(60).collect::<String>()),
                detail: json!({"why": e, "sources": picked.iter().map(|s| render::canonical(&s.desc)).collect::<Vec<_>>()}),
            }),
            (Err(e), _) => {
                eprintln!("machinery: derive comparison: {e}");
                return 2;
            }
        }
        ev.set("derive_states", json!(picked.len()));
    }
    ev.set("histories", json!(total));
    ev.set("traces_validated_against_impl", json!(counters.values().sum::<usize>()));
    ev.set("outcomes", json!(counters));
    ev.set("exhaustive", json!(true));
    ev.set("samples", json!([{"seed_run": "VERIF_HASH_SEED=3 LD_PRELOAD=work/getrandom_shim.so pdlc --output-format rust t.pdl", "source": proc_states.get(3).map(|s| render::canonical(&s.desc))}]));
    ev.set("rule", json!(format!("(b) for {} states x {{rust, python, cxx, json}}: the real pdlc under an interposed getrandom with VERIF_HASH_SEED in 0..{seeds} (the evidence reports how many iteration orders of 2/3/4-key std HashMaps that alphabet realises) must print identical bytes, identical to the in-process library call; (c) all {total} sequences of length {len} over {} (description, backend) pairs compiled in one process through one shared SourceDatabase must reproduce the single-shot outputs; (e) for every state with <= 3 leaf declarations every subset passed to --exclude-declaration must give the output of the source with those declarations deleted (rust, python, cxx); (d) {} states are compiled into two Rust harnesses, from the text pdlc prints and through #[pdl_derive::pdl_inline]: encoding every explored value and decoding the bounded byte-string space must give identical observations", proc_states.len(), alphabet.len(), if tier == Tier::Quick { 8 } else { 40 })));
    ev.assumptions = vec![
        "hash containers are only influenced through the hash seed (std RandomState via getrandom); hook-based permutation of every iteration point (DESIGN 6) is not built".into(),
        "derive == CLI is checked behaviourally on a small set of states (8 quick / 40 thorough): both harnesses execute the same enumerated operations and their raw observations must be identical; the #[pdl(file)] variant shares pdl_proc_macro's code path after the file is read and is not exercised separately".into(),
    ];
    let code = rep.finish(&mut ev);
    ev.write(&format!("{VERIF_DIR}/evidence"));
    println!("C11 {}: states={} process_states={} seeds={} violations={} known={} wall={:.1}s", tier_name(tier), sel.states.len(), proc_states.len(), seeds, ev.violations, ev.known, ev.start.elapsed().as_secs_f64());
    code
}

/// The states of part (d): per family the last Rust-supported selected state, then evenly spaced
/// earlier ones, renumbered 0..n.
fn pick_derive_states(tier: Tier, states: &[Selected]) -> Vec<Selected> {
    let sel = SelView { states };
        let n_derive = if tier == Tier::Quick { 8 } else { 40 };
    let mut picked: Vec<Selected> = vec![];
    let fams = ["BF", "AR", "PL", "OP", "ST", "IN", "INC", "EN", "MIX"];
    let mut round = 0usize;
    while picked.len() < n_derive && round < 8 {
        for fam in fams {
            let cands: Vec<&Selected> = sel
                .states
                .iter()
                .filter(|s| s.family == fam && s.depth >= 1)
                .filter(|s| rules::inline_groups(&s.desc).map(|i| unsupported(Lang::Rust, &i).is_none()).unwrap_or(false))
                .collect();
            if cands.is_empty() {
                continue;
            }
            // last, then evenly spaced earlier ones
            let k = cands.len() - 1 - (round * cands.len() / 8).min(cands.len() - 1);
            let c = cands[k];
            if !picked.iter().any(|p| p.desc == c.desc) && picked.len() < n_derive {
                picked.push(Selected { id: picked.len(), family: c.family.clone(), depth: c.depth, desc: c.desc.clone() });
            }
        }
        round += 1;
    }
    picked
}

struct SelView<'a> {
    states: &'a [Selected],
}

/// `pdlmc build-derive <tier>`: build both harnesses of part (d) ahead of time (setup); the check
/// regenerates identical sources and cargo has nothing left to do.
pub fn build_derive(tier: Tier) -> bool {
    let e = explore(tier);
    let sel = select::select(&e, tier, Lang::Json, &|_, _| true);
    let picked = pick_derive_states(tier, &sel.states);
    let mut h_cli = crate::rustgen::prepare_on(tier, Some(picked.clone()));
    let mut h_der = crate::rustgen::prepare_derive(tier, picked);
    let a = crate::rustgen::build(&mut h_cli);
    let b = crate::rustgen::build(&mut h_der);
    a && b
}

fn b_kind(b: Backend) -> u8 {
    match b {
        Backend::Rust => 0,
        Backend::Python => 1,
        Backend::Cxx => 2,
        Backend::Json => 3,
        Backend::Java => 4,
    }
}

fn strip_file_ids(s: &str) -> String {
    s.lines().filter(|l| !l.trim_start().starts_with("\"file\"")).collect::<Vec<_>>().join("\n")
}

/// raw string literals and ordinary ones with the same value are the same token for rustc
fn norm_tokens(ts: proc_macro2::TokenStream) -> proc_macro2::TokenStream {
    use proc_macro2::{Group, Literal, TokenTree};
    ts.into_iter()
        .map(|tt| match tt {
            TokenTree::Group(g) => {
                let mut ng = Group::new(g.delimiter(), norm_tokens(g.stream()));
                ng.set_span(g.span());
                TokenTree::Group(ng)
            }
            TokenTree::Literal(l) => {
                let r = l.to_string();
                if r.starts_with('r') && r.contains('"') {
                    if let Ok(ls) = syn::parse_str::<syn::LitStr>(&r) {
                        return TokenTree::Literal(Literal::string(&ls.value()));
                    }
                }
                TokenTree::Literal(l)
            }
            other => other,
        })
        .collect()
}

/// token texts without the (insignificant) spacing information
fn flat_tokens(ts: proc_macro2::TokenStream) -> Vec<String> {
    use proc_macro2::{Delimiter, TokenTree};
    let mut out = vec![];
    for tt in ts {
        match tt {
            TokenTree::Group(g) => {
                let (o, c) = match g.delimiter() {
                    Delimiter::Parenthesis => ("(", ")"),
                    Delimiter::Brace => ("{", "}"),
                    Delimiter::Bracket => ("[", "]"),
                    Delimiter::None => ("", ""),
                };
                out.push(o.to_string());
                out.extend(flat_tokens(g.stream()));
                // a trailing comma before the closing delimiter is insignificant (prettyplease
                // drops or adds them)
                if out.last().map(|x| x == ",").unwrap_or(false) {
                    out.pop();
                }
                out.push(c.to_string());
            }
            TokenTree::Ident(i) => out.push(i.to_string()),
            TokenTree::Punct(p) => out.push(p.as_char().to_string()),
            TokenTree::Literal(l) => out.push(l.to_string()),
        }
    }
    out
}
