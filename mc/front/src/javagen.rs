//! The `java` engine (C19): generated Java packages (one per state and byte order) are compiled
//! with javac in groups and driven through drivers/Drv.java, a generic reflection driver that
//! only executes and prints; every oracle is evaluated here against the reference model.

use crate::cxxgen::{diff_site, flatten, params, run_driver_with, OpIn, OpOut};
use crate::drive::{self, Outcome};
use crate::front::{explore, tier_name};
use crate::pygen::{descendants, tree_deterministic, value_matches};
use pdl_compiler::backends;
use pdlmc_core::classes;
use pdlmc_core::evidence::Evidence;
use pdlmc_core::graph::Tier;
use pdlmc_core::ir::*;
use pdlmc_core::model::{self, Model, Val};
use pdlmc_core::render;
use pdlmc_core::report::{Reporter, Violation, VERIF_DIR};
use pdlmc_core::rules;
use pdlmc_core::select::{self, Selected};
use pdlmc_core::support::Lang;
use pdlmc_core::values::{self, Budget, ValueGen};
use rayon::prelude::*;
use serde_json::{json, Value as J};
use std::collections::{BTreeMap, BTreeSet};
use std::fmt::Write as _;
use std::path::{Path, PathBuf};
use std::process::Command;
use std::sync::atomic::{AtomicU64, AtomicUsize, Ordering};

pub struct JOp {
    pub big: bool,
    /// the reference type the operation is about
    pub ty: String,
    /// the Java class whose builder / fromBytes is called (`Unknown<ty>` for the fallback child)
    pub class: String,
    pub input: OpIn,
}

pub struct Unit {
    pub st: Selected,
    inl_le: Desc,
    inl_be: Desc,
    text_le: String,
    text_be: String,
    ns: String,
    schema: Vec<String>,
    pub ops: Vec<JOp>,
}

/// What the reference (and the generated-code guide) expect `X.fromBytes(b)` to do.
#[derive(Debug, Clone)]
enum Expect {
    Throw(BTreeSet<model::Fault>),
    /// an object of this class carrying these field values
    Object(String, String, Val),
    /// the constraints select a child whose own fields do not parse: an exception, or the
    /// fallback child of the parent (the guide allows both readings) — never another class
    ThrowOrFallback(String, String, Val),
    /// two children fit: no single answer
    Skip,
}

fn has_fallback(d: &Desc, ty: &str) -> bool {
    d.get(ty).map(|x| x.fields().iter().any(|f| matches!(f.kind, FieldKind::Payload { .. }))).unwrap_or(false)
}

fn resolve(m: &Model, ty: &str, v: Val) -> Expect {
    let decl = m.decl(ty);
    if decl.payload().is_none() {
        return Expect::Object(ty.to_string(), ty.to_string(), v);
    }
    // the guide: a child is chosen "based on constraint values or child size", else the fallback.
    // A direct child is a candidate when every constraint of its own holds and, if its own
    // fields have a constant size (and it has no payload), the payload has exactly that size;
    // a child with neither constraints nor a constant size is never chosen. Two candidates:
    // no single answer.
    let prec = v.rec();
    let plen = match prec.get("payload") {
        Some(Val::Bytes(b)) => b.len() as u64,
        _ => 0,
    };
    let mut matches: Vec<String> = vec![];
    for x in m.d.children(ty) {
        let width = if x.payload().is_some() {
            None
        } else {
            match pdlmc_core::sizes::decl_size(m.d, &x.id) {
                pdlmc_core::sizes::Size::Static(n) => Some(n / 8),
                _ => None,
            }
        };
        if x.constraints().is_empty() && width.is_none() {
            continue;
        }
        let cs_ok = x.constraints().iter().all(|c| match (prec.get(&c.id), m.cval_int(ty, &c.id, &c.val)) {
            (Some(a), Some(e)) => a.int() == e,
            _ => false,
        });
        if cs_ok && width.map(|w| w == plen).unwrap_or(true) {
            matches.push(x.id.clone());
        }
    }
    match matches.len() {
        0 => {
            if has_fallback(m.d, ty) {
                Expect::Object(format!("Unknown{ty}"), ty.to_string(), v)
            } else {
                // `_body_`: no fallback class, the guide says an exception is thrown
                Expect::Throw(BTreeSet::new())
            }
        }
        1 => {
            let x = &matches[0];
            let mut faults = BTreeSet::new();
            match m.decode_partial(x, &v, &mut faults) {
                Some(cv) if faults.is_empty() => resolve(m, x, cv),
                _ => {
                    if has_fallback(m.d, ty) {
                        Expect::ThrowOrFallback(format!("Unknown{ty}"), ty.to_string(), v)
                    } else {
                        Expect::Throw(faults)
                    }
                }
            }
        }
        _ => Expect::Skip,
    }
}

/// `call` is a declaration id or `Unknown<id>`.
fn expected(m: &Model, call: &str, call_ty: &str, b: &[u8]) -> Expect {
    let chain = m.d.ancestry(call_ty);
    let root = chain.last().map(|d| d.id.clone()).unwrap_or_else(|| call_ty.to_string());
    let v = match m.decode_full(&root, b) {
        Ok(v) => v,
        Err(f) => return Expect::Throw(f),
    };
    let r = resolve(m, &root, v);
    let within = |class: &str, class_ty: &str| -> bool {
        if call.starts_with("Unknown") && call != call_ty {
            class == call
        } else {
            class_ty == call_ty || m.d.ancestry(class_ty).iter().any(|a| a.id == call_ty)
        }
    };
    match r {
        Expect::Object(c, t, v) => {
            if within(&c, &t) {
                Expect::Object(c, t, v)
            } else {
                Expect::Throw(BTreeSet::new())
            }
        }
        Expect::ThrowOrFallback(c, t, v) => {
            if within(&c, &t) {
                Expect::ThrowOrFallback(c, t, v)
            } else {
                Expect::Throw(BTreeSet::new())
            }
        }
        other => other,
    }
}

/// Constructs on which the Java backend is known to misbehave (used in signatures only, so that
/// one defect has one signature and a different construct gives a different one).
pub fn java_markers(d: &Desc, ty: &str) -> Vec<&'static str> {
    let mut out: BTreeSet<&'static str> = BTreeSet::new();
    fn walk(d: &Desc, ty: &str, out: &mut BTreeSet<&'static str>, depth: usize) {
        if depth > 4 {
            return;
        }
        for a in d.ancestry(ty) {
            let fields = a.fields();
            for (i, f) in fields.iter().enumerate() {
                match &f.kind {
                    FieldKind::Array { id, elem, shape } => {
                        let delimited = fields.iter().any(|g| matches!(&g.kind, FieldKind::Size { field_id, .. } | FieldKind::Count { field_id, .. } if field_id == id));
                        let dyn_elem = match elem {
                            Elem::Type(t) => match d.get(t).map(|x| &x.kind) {
                                Some(DeclKind::Struct { .. }) => {
                                    walk(d, t, out, depth + 1);
                                    if d.get(t).map(|x| x.payload().is_some()).unwrap_or(false) {
                                        out.insert("payload-struct-as-field");
                                    }
                                    match pdlmc_core::sizes::total_size(d, t) {
                                        pdlmc_core::sizes::Size::Static(0) => {
                                            out.insert("zero-size-struct-elements");
                                            false
                                        }
                                        pdlmc_core::sizes::Size::Static(_) => false,
                                        _ => true,
                                    }
                                }
                                _ => false,
                            },
                            _ => false,
                        };
                        if matches!(shape, Shape::Unsized) && !delimited {
                            if i + 1 < fields.len() {
                                out.insert("unsized-array-not-last");
                            }
                            if dyn_elem && fields.iter().enumerate().any(|(k, g)| k != i && !matches!(pdlmc_core::sizes::field_size(d, a, g), pdlmc_core::sizes::Size::Static(_))) {
                                out.insert("unsized-dyn-array-with-dyn-sibling");
                            }
                        }
                    }
                    FieldKind::Typedef { type_id, .. } => {
                        if matches!(d.get(type_id).map(|x| &x.kind), Some(DeclKind::Struct { .. })) {
                            if d.get(type_id).map(|x| x.payload().is_some()).unwrap_or(false) {
                                out.insert("payload-struct-as-field");
                            }
                            walk(d, type_id, out, depth + 1);
                        }
                    }
                    _ => {}
                }
            }
        }
    }
    walk(d, ty, &mut out, 0);
    out.into_iter().collect()
}

/// What the generated-code guide's selection rule does with a value of a declaration that has
/// children: "none-matches", "one-matches-and-parses", "one-matches-but-does-not-parse",
/// "several-match" (used by C07 to label disagreements).
pub fn child_status(m: &Model, ty: &str, v: &Val) -> &'static str {
    if m.d.children(ty).next().is_none() {
        return "no-children";
    }
    let rec = match v {
        Val::Rec(r) => r,
        _ => return "no-children",
    };
    let plen = match rec.get("payload") {
        Some(Val::Bytes(b)) => b.len() as u64,
        _ => 0,
    };
    let mut matches: Vec<String> = vec![];
    for x in m.d.children(ty) {
        let width = if x.payload().is_some() {
            None
        } else {
            match pdlmc_core::sizes::decl_size(m.d, &x.id) {
                pdlmc_core::sizes::Size::Static(n) => Some(n / 8),
                _ => None,
            }
        };
        if x.constraints().is_empty() && width.is_none() {
            continue;
        }
        let cs_ok = x.constraints().iter().all(|c| match (rec.get(&c.id), m.cval_int(ty, &c.id, &c.val)) {
            (Some(a), Some(e)) => a.int() == e,
            _ => false,
        });
        if cs_ok && width.map(|w| w == plen).unwrap_or(true) {
            matches.push(x.id.clone());
        }
    }
    match matches.len() {
        0 => "none-matches",
        1 => {
            let mut faults = BTreeSet::new();
            match m.decode_partial(&matches[0], v, &mut faults) {
                Some(_) if faults.is_empty() => "one-matches-and-parses",
                _ => "one-matches-but-does-not-parse",
            }
        }
        _ => "several-match",
    }
}

/// a declaration on the way from the root down to `ty` has neither constraints nor a constant
/// size of its own fields: the documented selection rule never picks it
pub fn never_selected_child(d: &Desc, ty: &str) -> bool {
    d.ancestry(ty).iter().any(|a| {
        a.parent().is_some()
            && a.constraints().is_empty()
            && (a.payload().is_some() || !matches!(pdlmc_core::sizes::decl_size(d, &a.id), pdlmc_core::sizes::Size::Static(_)))
    })
}

/// the class (or a class on the way down to it) is a child without constraints of its own: the
/// generated dispatch can select it by constant size at best
fn via_unconstrained_child(d: &Desc, class_ty: &str) -> bool {
    d.ancestry(class_ty).iter().any(|a| a.parent().is_some() && a.constraints().is_empty())
}

fn gen_java(text: &str, dir: &Path, package: &str) -> Result<(), String> {
    let run = drive::run_text_named(text, "t.pdl");
    match &run.outcome {
        Outcome::Accepted => {}
        o => return Err(format!("not accepted: {o:?}")),
    }
    let analyzed = run.analyzed.as_ref().unwrap();
    drive::guarded(|| backends::java::generate(&run.sources, analyzed, &[], dir, package))?
}

fn schema_line(m: &Model, pkg: &str, class: &str, ty: &str, with_payload: bool) -> String {
    let mut s = format!("T {pkg} {class}");
    for p in params(m, ty) {
        if p.payload {
            if with_payload {
                s += " payload:Payload";
            }
            continue;
        }
        let _ = write!(s, " {}:{}", p.key(), classes::camel(p.key()));
    }
    s
}

/// Operations supplied from outside (C07): (type, input) per byte order; the class called is
/// the type itself, or its fallback child when the type has a payload and a value is built.
pub struct ExtOps {
    pub le: Vec<(String, OpIn)>,
    pub be: Vec<(String, OpIn)>,
}

pub fn prepare(st: &Selected, src: &Path, thorough: bool, ext: Option<&ExtOps>) -> Option<Unit> {
    let d_le = st.desc.with_endian(Endian::Little);
    let d_be = st.desc.with_endian(Endian::Big);
    let (inl_le, inl_be) = match (rules::inline_groups(&d_le), rules::inline_groups(&d_be)) {
        (Some(a), Some(b)) => (a, b),
        _ => return None,
    };
    let text_le = render::canonical(&d_le);
    let text_be = render::canonical(&d_be);
    let ns = format!("s{}", st.id);
    if gen_java(&text_le, src, &format!("{ns}le")).is_err() || gen_java(&text_be, src, &format!("{ns}be")).is_err() {
        return None; // generator panics and refusals are C10's business
    }
    let types: Vec<String> = inl_le.decls.iter().filter(|d| d.is_pkt_or_struct() && crate::front::encodable(&inl_le, &d.id)).map(|d| d.id.clone()).collect();
    let mut ops: Vec<JOp> = vec![];
    let mut schema: Vec<String> = vec![];
    {
        let m_le = Model::new(&inl_le);
        let m_be = Model::new(&inl_be);
        for (big, m, inl) in [(false, &m_le, &inl_le), (true, &m_be, &inl_be)] {
            let pkg = format!("{ns}{}", if big { "be" } else { "le" });
            let vg = ValueGen { m, budget: if thorough { Budget { max_values: 400, pairs: true, nested_alts: 4, max_array_len: 300 } } else { Budget { max_values: 60, pairs: true, nested_alts: 3, max_array_len: 20 } } };
            for ty in &types {
                let decl = m.decl(ty);
                schema.push(schema_line(m, &pkg, ty, ty, false));
                if has_fallback(inl, ty) {
                    schema.push(schema_line(m, &pkg, &format!("Unknown{ty}"), ty, true));
                }
                // the concrete class a value of this type is built as
                let class = if decl.payload().is_some() {
                    if has_fallback(inl, ty) {
                        Some(format!("Unknown{ty}"))
                    } else {
                        None
                    }
                } else {
                    Some(ty.clone())
                };
                if let Some(ext) = ext {
                    // external operations: builds go to the concrete class of the type, parses
                    // to the type's own fromBytes (only classes that declare one)
                    for (t2, input) in if big { &ext.be } else { &ext.le } {
                        if t2 != ty {
                            continue;
                        }
                        match input {
                            OpIn::Build(_) => {
                                if let Some(class) = &class {
                                    ops.push(JOp { big, ty: ty.clone(), class: class.clone(), input: input.clone() });
                                }
                            }
                            OpIn::Parse(_) => {
                                if decl.parent().is_none() || decl.payload().is_none() {
                                    ops.push(JOp { big, ty: ty.clone(), class: ty.clone(), input: input.clone() });
                                }
                            }
                        }
                    }
                    continue;
                }
                if let Some(class) = &class {
                    let vals: Vec<Val> = vg.values(ty).ok.into_iter().filter(|v| m.encode(ty, v).is_ok()).collect();
                    for v in vals {
                        ops.push(JOp { big, ty: ty.clone(), class: class.clone(), input: OpIn::Build(v) });
                    }
                }
                if decl.parent().is_none() && classes::deterministic(inl, ty).is_ok() && tree_deterministic(inl, ty) {
                    let mut inputs = values::input_set(m, ty, big, thorough, if thorough { 200 } else { 8 });
                    let desc = descendants(inl, ty);
                    for dty in &desc {
                        if !crate::front::encodable(inl, dty) {
                            continue;
                        }
                        for v in vg.values(dty).ok.iter().take(if thorough { 100 } else { 5 }) {
                            if let Ok(enc) = m.encode(dty, v) {
                                if enc.bytes.len() <= 2048 {
                                    inputs.push(enc.bytes.clone());
                                    values::for_all_mutants(&enc, big, &mut |b: &[u8]| {
                                        if inputs.len() < (if thorough { 40000 } else { 5000 }) {
                                            inputs.push(b.to_vec())
                                        }
                                    });
                                }
                            }
                        }
                    }
                    inputs.sort();
                    inputs.dedup();
                    // classes that declare fromBytes(byte[]): the root, every declaration without
                    // a payload, and the fallback child of every declaration with one (abstract
                    // intermediate classes inherit the root's static method)
                    let mut calls: Vec<(String, String)> = vec![(ty.clone(), ty.clone())];
                    let mut tys = vec![ty.clone()];
                    tys.extend(desc.into_iter().filter(|t| types.contains(t)));
                    for t in &tys {
                        if m.decl(t).payload().is_none() {
                            if t != ty {
                                calls.push((t.clone(), t.clone()));
                            }
                        } else if has_fallback(inl, t) {
                            calls.push((t.clone(), format!("Unknown{t}")));
                        }
                    }
                    for (t, class) in &calls {
                        for b in &inputs {
                            ops.push(JOp { big, ty: t.clone(), class: class.clone(), input: OpIn::Parse(b.clone()) });
                        }
                    }
                }
            }
        }
    }
    Some(Unit { st: st.clone(), inl_le, inl_be, text_le, text_be, ns, schema, ops })
}

fn write_task(dir: &Path, units: &[&Unit]) {
    let mut task = String::new();
    for u in units {
        for l in &u.schema {
            task += l;
            task.push('\n');
        }
    }
    for u in units {
        let m_le = Model::new(&u.inl_le);
        let m_be = Model::new(&u.inl_be);
        for op in &u.ops {
            let pkg = format!("{}{}", u.ns, if op.big { "be" } else { "le" });
            match &op.input {
                OpIn::Build(v) => {
                    let mut toks = vec![];
                    flatten(if op.big { &m_be } else { &m_le }, &op.ty, v, &mut toks);
                    let _ = writeln!(task, "B {pkg} {} {}", op.class, toks.iter().map(|t| t.to_string()).collect::<Vec<_>>().join(" "));
                }
                OpIn::Parse(b) => {
                    let _ = writeln!(task, "P {pkg} {} {}", op.class, if b.is_empty() { "-".to_string() } else { model::hex(b) });
                }
            }
        }
    }
    std::fs::write(dir.join("task.txt"), task).expect("write");
}

fn javac(dir: &Path, src: &Path, units: &[&Unit], drv_classes: &Path) -> Result<PathBuf, String> {
    let classes = dir.join("classes");
    std::fs::create_dir_all(&classes).map_err(|e| e.to_string())?;
    let mut files: Vec<PathBuf> = vec![];
    for u in units {
        for bo in ["le", "be"] {
            if let Ok(rd) = std::fs::read_dir(src.join(format!("{}{bo}", u.ns))) {
                for e in rd.flatten() {
                    files.push(e.path());
                }
            }
        }
    }
    files.sort();
    let list = dir.join("sources.txt");
    std::fs::write(&list, files.iter().map(|f| f.display().to_string()).collect::<Vec<_>>().join("\n")).map_err(|e| e.to_string())?;
    let o = Command::new("javac")
        .args(["-nowarn", "-proc:none", "-g:none", "-J-XX:TieredStopAtLevel=1", "-J-XX:+UseSerialGC", "-J-Xshare:auto", "-d"])
        .arg(&classes)
        .arg("-cp")
        .arg(drv_classes)
        .arg(format!("@{}", list.display()))
        .output()
        .map_err(|e| format!("cannot run javac: {e}"))?;
    if !o.status.success() {
        // every error line, so that the caller can attribute them to packages
        let e = String::from_utf8_lossy(&o.stderr);
        let errs: Vec<&str> = e.lines().filter(|l| l.contains(": error:")).collect();
        if errs.is_empty() {
            return Err(e.lines().next().unwrap_or("javac failed").to_string());
        }
        return Err(errs.join("\n"));
    }
    Ok(classes)
}

type Verdicts = (Reporter, BTreeMap<String, usize>, Option<J>);

fn compile_failure(u: &Unit, err: &str) -> Verdicts {
    let mut rep = Reporter::new("C19");
    let mut c: BTreeMap<String, usize> = BTreeMap::new();
    let msg = err.split("error:").nth(1).unwrap_or(err);
    let norm: String = msg.chars().map(|ch| if ch.is_ascii_digit() { '#' } else { ch }).take(80).collect();
    rep.report(Violation {
        property: "C19".into(),
        sig: format!("generated-java-does-not-compile error={}", norm.trim()),
        detail: json!({"state": {"state": u.st.id, "family": u.st.family, "source": u.text_le}, "error": err}),
    });
    *c.entry("states-not-compiled".into()).or_default() += 1;
    (rep, c, None)
}

fn evaluate(u: &Unit, res: &[OpOut], machinery_errors: &AtomicUsize) -> Verdicts {
    let mut rep = Reporter::new("C19");
    let mut c: BTreeMap<String, usize> = BTreeMap::new();
    let st = &u.st;
    let m_le = Model::new(&u.inl_le);
    let m_be = Model::new(&u.inl_be);
    let base = |big: bool, ty: &str, class: &str| json!({"state": st.id, "family": st.family, "endianness": if big {"big"} else {"little"}, "type": ty, "class": class, "source": if big { &u.text_be } else { &u.text_le }});
    *c.entry("states-compiled".into()).or_default() += 1;
    let mut inc = |k: &str| *c.entry(k.to_string()).or_default() += 1;
    let mut rare_cache: std::collections::HashMap<(bool, String), Vec<&str>> = std::collections::HashMap::new();
    for (k, op) in u.ops.iter().enumerate() {
        let m = if op.big { &m_be } else { &m_le };
        let inl = if op.big { &u.inl_be } else { &u.inl_le };
        let rare: &Vec<&str> = rare_cache.entry((op.big, op.ty.clone())).or_insert_with(|| {
            let cls = classes::construct_classes(inl, &op.ty);
            let mut rare: Vec<&str> = cls.iter().copied().filter(|c| ["payload-with-modifier", "array-modifier", "body", "static-array", "enum-elements", "struct-elements", "child"].contains(c)).collect();
            rare.extend(java_markers(inl, &op.ty));
            rare
        });
        let line = match &res[k] {
            OpOut::Line(l) => l.clone(),
            OpOut::NotRun => {
                inc("ops-not-executed-after-death-cap");
                continue;
            }
            OpOut::Died(how) => {
                inc("outcome:jvm-died");
                let (opname, input) = match &op.input {
                    OpIn::Build(v) => ("build", v.to_json()),
                    OpIn::Parse(b) => ("parse", json!(model::hex(b))),
                };
                rep.report(Violation {
                    property: "C19".into(),
                    sig: format!("jvm-death op={opname} how={how} rare-constructs={rare:?}"),
                    detail: json!({"state": base(op.big, &op.ty, &op.class), "input": input, "death": how}),
                });
                continue;
            }
        };
        if line.starts_with("driver-error") {
            machinery_errors.fetch_add(1, Ordering::Relaxed);
            if machinery_errors.load(Ordering::Relaxed) < 5 {
                eprintln!("driver error in state {} ({} {}): {line}", st.id, op.ty, op.class);
            }
            continue;
        }
        // compare an "ok <class> <json>" observation of fromBytes with the expectation
        let mut judge_parse = |rep: &mut Reporter, b: &[u8], got_class: Option<&str>, got_json: Option<&str>, exc: Option<&str>, site: &str| {
            let want = expected(m, &op.class, &op.ty, b);
            match (&want, got_class) {
                (Expect::Skip, _) => {}
                (Expect::Throw(_), None) => {}
                (Expect::ThrowOrFallback(..), None) => {}
                (Expect::Throw(f), Some(gc)) => {
                    rep.report(Violation {
                        property: "C19".into(),
                        sig: format!("reference-rejects-fromBytes-returns-an-object site={site} faults={f:?} at={} rare-constructs={rare:?}", m.length_ctx.get()),
                        detail: json!({"state": base(op.big, &op.ty, &op.class), "input": model::hex(b), "observed_class": gc, "observed": got_json}),
                    });
                }
                (Expect::Object(wc, wt, v), None) => {
                    rep.report(Violation {
                        property: "C19".into(),
                        sig: format!("reference-accepts-fromBytes-throws site={site} exception={} expected-class-is={}{} rare-constructs={rare:?}", exc.unwrap_or("").split(' ').next().unwrap_or(""), if wc.starts_with("Unknown") && wc != wt { "the-fallback" } else if wt == &op.ty { "the-class-called" } else { "a-descendant" }, if via_unconstrained_child(inl, wt) { " via-unconstrained-child" } else { "" }),
                        detail: json!({"state": base(op.big, &op.ty, &op.class), "input": model::hex(b), "expected_class": wc, "expected": v.to_json(), "exception": exc}),
                    });
                }
                (Expect::Object(wc, wt, v), Some(gc)) | (Expect::ThrowOrFallback(wc, wt, v), Some(gc)) => {
                    let got: J = serde_json::from_str(got_json.unwrap_or("null")).unwrap_or(J::Null);
                    if gc != wc {
                        rep.report(Violation {
                            property: "C19".into(),
                            sig: format!("fromBytes-returns-wrong-class site={site} expected-is={} observed-is={}{} rare-constructs={rare:?}", if wc.starts_with("Unknown") { "fallback" } else { "concrete" }, if gc.starts_with("Unknown") { "fallback" } else { "concrete" }, if via_unconstrained_child(inl, wt) { " via-unconstrained-child" } else { "" }),
                            detail: json!({"state": base(op.big, &op.ty, &op.class), "input": model::hex(b), "expected_class": wc, "observed_class": gc, "observed": got}),
                        });
                    } else if !value_matches(v, &got) {
                        rep.report(Violation {
                            property: "C19".into(),
                            sig: format!("parsed-value-differs-from-reference site={site} rare-constructs={rare:?}"),
                            detail: json!({"state": base(op.big, &op.ty, &op.class), "input": model::hex(b), "expected": v.to_json(), "observed": got}),
                        });
                    }
                }
            }
            want
        };
        match &op.input {
            OpIn::Build(v) => {
                inc("values");
                let want = match m.encode(&op.ty, v) {
                    Ok(e) => e,
                    Err(_) => continue,
                };
                let mut it = line.splitn(5, ' ');
                match it.next() {
                    Some("ok") => {
                        inc("outcome:serialized");
                        let hex = it.next().unwrap_or("");
                        let got = if hex == "-" { vec![] } else { model::unhex(hex) };
                        if got != want.bytes {
                            let pos = got.iter().zip(want.bytes.iter()).position(|(a, b)| a != b).unwrap_or(got.len().min(want.bytes.len()));
                            let site = diff_site(&want, &got, pos, op.big);
                            rep.report(Violation {
                                property: "C19".into(),
                                sig: format!("toBytes-differs-from-reference first-difference-in={site} rare-constructs={rare:?}"),
                                detail: json!({"state": base(op.big, &op.ty, &op.class), "value": v.to_json(), "expected": model::hex(&want.bytes), "observed": hex}),
                            });
                            continue;
                        }
                        // round trip through fromBytes of the class that was built
                        match it.next() {
                            Some("rt-exception") => {
                                let exc = it.next().unwrap_or("").to_string() + " " + it.next().unwrap_or("");
                                judge_parse(&mut rep, &want.bytes, None, None, Some(&exc), "round-trip");
                            }
                            Some(eq) => {
                                let gc = it.next().unwrap_or("").to_string();
                                let js = it.next().unwrap_or("").to_string();
                                let w = judge_parse(&mut rep, &want.bytes, Some(&gc), Some(&js), None, "round-trip");
                                if let Expect::Object(wc, _, wv) = &w {
                                    // only where the reference itself reads the value back
                                    if *wc == op.class && wv == v && eq != "eq" {
                                        rep.report(Violation {
                                            property: "C19".into(),
                                            sig: format!("fromBytes-of-toBytes-is-not-equal-to-the-object rare-constructs={rare:?}"),
                                            detail: json!({"state": base(op.big, &op.ty, &op.class), "value": v.to_json(), "bytes": hex, "observed": js}),
                                        });
                                    }
                                }
                            }
                            None => {}
                        }
                    }
                    Some("err") => {
                        inc("outcome:build-or-serialize-exception");
                        let stage = it.next().unwrap_or("");
                        let exc = it.next().unwrap_or("");
                        rep.report(Violation {
                            property: "C19".into(),
                            sig: format!("well-formed-value-not-serialized stage={stage} exception={exc} rare-constructs={rare:?}"),
                            detail: json!({"state": base(op.big, &op.ty, &op.class), "value": v.to_json(), "error": line}),
                        });
                    }
                    _ => {}
                }
            }
            OpIn::Parse(b) => {
                inc("parse-inputs");
                let mut it = line.splitn(4, ' ');
                match it.next() {
                    Some("ok") => {
                        let gc = it.next().unwrap_or("").to_string();
                        let js = it.next().unwrap_or("").to_string();
                        let again = it.next().unwrap_or("").to_string();
                        let w = judge_parse(&mut rep, b, Some(&gc), Some(&js), None, "parse");
                        match &w {
                            Expect::Object(wc, wt, v) if *wc == gc => {
                                inc("outcome:both-accept");
                                // canonical re-encoding of what was parsed
                                if let Ok(enc) = m.encode(wt, v) {
                                    let a = if again == "-" { Some(vec![]) } else if again.starts_with("toBytes-exception") { None } else { Some(model::unhex(&again)) };
                                    if a.as_ref() != Some(&enc.bytes) {
                                        rep.report(Violation {
                                            property: "C19".into(),
                                            sig: format!("toBytes-of-parsed-object-differs-from-reference observed={} rare-constructs={rare:?}", if a.is_none() { "exception" } else { "bytes" }),
                                            detail: json!({"state": base(op.big, &op.ty, &op.class), "input": model::hex(b), "expected": model::hex(&enc.bytes), "observed": again}),
                                        });
                                    }
                                }
                            }
                            Expect::Throw(_) => inc("outcome:disagree"),
                            _ => inc("outcome:accepted-other"),
                        }
                    }
                    Some("err") => {
                        let exc = it.next().unwrap_or("").to_string() + " " + it.next().unwrap_or("");
                        let w = judge_parse(&mut rep, b, None, None, Some(&exc), "parse");
                        match w {
                            Expect::Throw(_) | Expect::ThrowOrFallback(..) => inc("outcome:both-reject"),
                            Expect::Object(..) => inc("outcome:disagree"),
                            Expect::Skip => inc("inputs-skipped-two-children-fit"),
                        }
                    }
                    _ => {}
                }
            }
        }
    }
    let sample = if st.depth >= 2 { Some(json!({"state": st.id, "ops": u.ops.len(), "source": u.text_le})) } else { None };
    (rep, c, sample)
}

pub enum Raw {
    CompileError(String),
    Ran(Vec<OpOut>),
}

pub struct Timers {
    pub cc: AtomicU64,
    pub run: AtomicU64,
}

/// Compile (one javac for the group) and run a group of states; javac reports every error of the
/// group at once and each line names the package directory (s<id>le / s<id>be): exactly the
/// states it names are dropped and the rest recompiled; if a line cannot be attributed, one
/// javac per state. The result is aligned with `units`.
pub fn run_group_raw(units: &[&Unit], dir: &Path, src: &Path, drv_classes: &Path, t: &Timers) -> Vec<Raw> {
    std::fs::create_dir_all(dir).expect("mkdir");
    let t0 = std::time::Instant::now();
    let built = javac(dir, src, units, drv_classes);
    t.cc.fetch_add(t0.elapsed().as_millis() as u64, Ordering::Relaxed);
    let classes = match built {
        Ok(c) => c,
        Err(err) => {
            if units.len() == 1 {
                return vec![Raw::CompileError(err.lines().next().unwrap_or("").to_string())];
            }
            let mut out: Vec<Option<Raw>> = units.iter().map(|_| None).collect();
            let mut bad: Vec<usize> = vec![];
            let mut unattributed = false;
            for l in err.lines() {
                match units.iter().position(|u| l.contains(&format!("/{}le/", u.ns)) || l.contains(&format!("/{}be/", u.ns))) {
                    Some(k) => {
                        if !bad.contains(&k) {
                            bad.push(k);
                            out[k] = Some(Raw::CompileError(l.to_string()));
                        }
                    }
                    None => unattributed = true,
                }
            }
            if unattributed || bad.is_empty() {
                for (k, u) in units.iter().enumerate() {
                    out[k] = run_group_raw(&[*u], &dir.join(format!("u{k}")), src, drv_classes, t).pop();
                }
            } else {
                let rest_idx: Vec<usize> = (0..units.len()).filter(|k| !bad.contains(k)).collect();
                let rest: Vec<&Unit> = rest_idx.iter().map(|k| units[*k]).collect();
                if !rest.is_empty() {
                    for (k, r) in rest_idx.iter().zip(run_group_raw(&rest, &dir.join("rest"), src, drv_classes, t)) {
                        out[*k] = Some(r);
                    }
                }
            }
            return out.into_iter().map(|o| o.unwrap_or_else(|| Raw::CompileError("not compiled".into()))).collect();
        }
    };
    write_task(dir, units);
    let n_ops: usize = units.iter().map(|u| u.ops.len()).sum();
    let tf = dir.join("task.txt");
    let t1 = std::time::Instant::now();
    let cp = format!("{}:{}", drv_classes.display(), classes.display());
    let mut unit_ends: Vec<usize> = vec![];
    let mut acc = 0usize;
    for u in units {
        acc += u.ops.len();
        unit_ends.push(acc);
    }
    let (res, _) = run_driver_with(n_ops, usize::MAX, &dir.join("out.txt"), &unit_ends, &|start, _quiet| {
        let mut c = Command::new("timeout");
        c.args(["-s", "KILL", "3600", "java", "-XX:TieredStopAtLevel=1", "-XX:+UseSerialGC", "-Xshare:auto", "-Xmx1g", "-Xss2m", "-cp"]).arg(&cp).arg("Drv").arg(&tf).arg(start.to_string());
        c
    });
    t.run.fetch_add(t1.elapsed().as_millis() as u64, Ordering::Relaxed);
    let mut out = vec![];
    let mut off = 0usize;
    for u in units {
        let n = u.ops.len();
        out.push(Raw::Ran(res[off..off + n].to_vec()));
        off += n;
    }
    out
}

fn run_group(units: &[&Unit], dir: &Path, src: &Path, drv_classes: &Path, t: &Timers, machinery_errors: &AtomicUsize) -> Vec<Verdicts> {
    run_group_raw(units, dir, src, drv_classes, t)
        .into_iter()
        .zip(units)
        .map(|(raw, u)| match raw {
            Raw::CompileError(e) => compile_failure(u, &e),
            Raw::Ran(res) => evaluate(u, &res, machinery_errors),
        })
        .collect()
}

/// Compile drivers/Drv.java once per run.
pub fn build_driver(drv_classes: &Path) -> Result<(), String> {
    std::fs::create_dir_all(drv_classes).map_err(|e| e.to_string())?;
    let o = Command::new("javac").args(["-nowarn", "-d"]).arg(drv_classes).arg(format!("{VERIF_DIR}/drivers/Drv.java")).output();
    match o {
        Ok(o) if o.status.success() => Ok(()),
        Ok(o) => Err(format!("cannot compile drivers/Drv.java: {}", String::from_utf8_lossy(&o.stderr))),
        Err(e) => Err(format!("cannot run javac: {e}")),
    }
}

pub fn check(tier: Tier) -> i32 {
    check_on(tier, None)
}

/// `only`: run on exactly these states (single-source / replay mode: no evidence or replay file
/// is written) instead of the explored and selected ones.
pub fn check_on(tier: Tier, only: Option<Vec<Selected>>) -> i32 {
    let mut ev = Evidence::new("C19", tier_name(tier));
    let single = only.is_some();
    let (e, sel) = match only {
        Some(states) => (pdlmc_core::graph::Explored::default(), select::Selection { states, strata: vec![] }),
        None => {
            let e = explore(tier);
            let sel = select::select(&e, tier, Lang::Java, &|_, _| true);
            (e, sel)
        }
    };
    let root = PathBuf::from(format!("{VERIF_DIR}/work/java_{}", tier_name(tier)));
    let _ = std::fs::remove_dir_all(&root);
    let src = root.join("src");
    let drv_classes = root.join("drv");
    std::fs::create_dir_all(&src).expect("mkdir");
    std::fs::create_dir_all(&drv_classes).expect("mkdir");
    if let Err(e) = build_driver(&drv_classes) {
        eprintln!("machinery: {e}");
        return 2;
    }
    let thorough = tier == Tier::Thorough;
    let limit: usize = std::env::var("PDLMC_LIMIT").ok().and_then(|s| s.parse().ok()).unwrap_or(usize::MAX);
    let stride: usize = std::env::var("PDLMC_JAVA_STRIDE").ok().and_then(|s| s.parse().ok()).unwrap_or(if thorough { 32 } else { 2 });
    let group: usize = std::env::var("PDLMC_JAVA_GROUP").ok().and_then(|s| s.parse().ok()).unwrap_or(16);
    let jobs: Vec<&Selected> = sel.states.iter().step_by(if single { 1 } else { stride.max(1) }).take(limit).collect();
    let timers = Timers { cc: AtomicU64::new(0), run: AtomicU64::new(0) };
    let t_prep = AtomicU64::new(0);
    let t_all = AtomicU64::new(0);
    eprintln!("explore+select: {:.1}s", ev.start.elapsed().as_secs_f64());
    let machinery_errors = AtomicUsize::new(0);
    let not_generated = AtomicUsize::new(0);
    let groups: Vec<(usize, &[&Selected])> = jobs.chunks(group.max(1)).enumerate().collect();
    let ev_start = ev.start;
    let per_task: Vec<Verdicts> = groups
        .par_iter()
        .flat_map(|(k, sts)| {
            let t0 = std::time::Instant::now();
            let _g = scopeguard(&t_all, t0);
            let units: Vec<Unit> = sts
                .iter()
                .filter_map(|st| {
                    let u = prepare(st, &src, thorough, None);
                    if u.is_none() {
                        not_generated.fetch_add(1, Ordering::Relaxed);
                    }
                    u
                })
                .collect();
            t_prep.fetch_add(t0.elapsed().as_millis() as u64, Ordering::Relaxed);
            let refs: Vec<&Unit> = units.iter().collect();
            if refs.is_empty() {
                return vec![];
            }
            let dir = root.join(format!("g{k}"));
            let out = run_group(&refs, &dir, &src, &drv_classes, &timers, &machinery_errors);
            if std::env::var("PDLMC_TRACE").is_ok() {
                eprintln!("group {k}: started {:.1}s finished {:.1}s", (t0 - ev_start).as_secs_f64(), ev_start.elapsed().as_secs_f64());
            }
            if std::env::var("PDLMC_KEEP").is_err() {
                let _ = std::fs::remove_dir_all(&dir);
            }
            out
        })
        .collect();
    eprintln!("parallel section done at {:.1}s", ev.start.elapsed().as_secs_f64());
    eprintln!("phases (wall ms summed over groups): prepare={} javac={} jvm={} total={}", t_prep.load(Ordering::Relaxed), timers.cc.load(Ordering::Relaxed), timers.run.load(Ordering::Relaxed), t_all.load(Ordering::Relaxed));
    let mut rep = Reporter::new("C19");
    rep.dry = single;
    let mut counters: BTreeMap<String, usize> = BTreeMap::new();
    let mut samples = vec![];
    for (r, c, s) in per_task {
        rep.merge(r);
        for (k, v) in c {
            *counters.entry(k).or_default() += v;
        }
        if let Some(s) = s {
            if samples.len() < 3 {
                samples.push(s);
            }
        }
    }
    if std::env::var("PDLMC_KEEP").is_err() {
        let _ = std::fs::remove_dir_all(&root);
    }
    let get = |k: &str| counters.get(k).copied().unwrap_or(0);
    ev.set("states", json!(e.states.len()));
    ev.set("transitions", json!(e.transitions));
    ev.set("eligible_states", json!(sel.states.len()));
    ev.set("compiled_states", json!(jobs.len()));
    ev.set("stride", json!(stride));
    ev.set("states_per_javac_invocation", json!(group));
    ev.set("states_whose_code_was_not_generated", json!(not_generated.load(Ordering::Relaxed)));
    ev.set("strata", json!(sel.strata.iter().map(|(f, d, n, t)| json!({"family": f, "depth": d, "eligible": n, "selected": t})).collect::<Vec<_>>()));
    ev.set("exhaustive", json!(stride <= 1 && !sel.strata.iter().any(|(_, _, n, t)| t < n)));
    ev.set("traces_validated_against_impl", json!(get("parse-inputs") + get("values")));
    ev.set("outcomes", json!(counters));
    ev.set("samples", json!(samples));
    ev.set("rule", json!("for the well-formed Java-supported states (selection as in the rust engine, every stride-th state in quick) the real Java backend (feature java) generates one package per byte order; javac compiles them in groups; drivers/Drv.java builds objects through the generated builders by reflection and calls toBytes / fromBytes / getters / equals / hashCode. For every concrete class (leaf packets, structs, Unknown<Parent> fallbacks) and explored value: toBytes == reference encoding and fromBytes(toBytes(v)) returns the class the reference's specialisation names, with the reference field values, equal to the built object. For every packet of a deterministically parseable tree and every input of the bounded byte-string space (all B-alphabet strings <= 3 (4), all 1-byte strings, every prefix / extension / substitution / field-targeted mutant of the reference encodings of the explored values of the type and its descendants): fromBytes throws iff the reference rejects; otherwise it returns the child class whose constraints match (recursively) or the Unknown<Parent> fallback, getters equal the reference values, and toBytes of the parsed object is the reference encoding of that value."));
    ev.assumptions = vec![
        "trusted: the reference model and its specialisation rule (constraints, and constant size where siblings differ only by size)".into(),
        "when the constraints select a child whose own fields do not parse, an exception and the fallback child are both accepted (the guide allows both readings); any other class is a violation".into(),
    ];
    let code = rep.finish(&mut ev);
    let distinct = counters.iter().filter(|(k, v)| k.starts_with("outcome:") && **v > 0).count();
    ev.set("distinct_outcome_classes", json!(distinct));
    ev.set("machinery_errors", json!(machinery_errors.load(Ordering::Relaxed)));
    if single {
        return code;
    }
    ev.write(&format!("{VERIF_DIR}/evidence"));
    if distinct < 2 {
        eprintln!("machinery error: exploration produced {distinct} outcome class(es)");
        return 2;
    }
    if machinery_errors.load(Ordering::Relaxed) > 0 {
        eprintln!("machinery error: {} operations could not be executed by the driver", machinery_errors.load(Ordering::Relaxed));
        return 2;
    }
    println!("C19 {}: eligible={} compiled={} parse_inputs={} values={} violations={} known={} wall={:.1}s", tier_name(tier), sel.states.len(), get("states-compiled"), get("parse-inputs"), get("values"), ev.violations, ev.known, ev.start.elapsed().as_secs_f64());
    code
}

struct Guard<'a>(&'a AtomicU64, std::time::Instant);
impl Drop for Guard<'_> {
    fn drop(&mut self) {
        self.0.fetch_add(self.1.elapsed().as_millis() as u64, Ordering::Relaxed);
    }
}
fn scopeguard(a: &AtomicU64, t: std::time::Instant) -> Guard<'_> {
    Guard(a, t)
}
