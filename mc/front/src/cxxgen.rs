//! The `cxx` engine (C14): for every selected state the real C++ backend generates a header for
//! both byte orders (namespaces `le` / `be`); a driver translation unit is *generated from the
//! IR* (C++ has no reflection) and compiled against the headers twice, with
//! `-fsanitize=address,undefined -fno-sanitize-recover=all`, once with assertions and once with
//! `-DNDEBUG`. The driver only executes and prints; every oracle is evaluated here against the
//! reference model. Deaths of the driver process (sanitizer report, failed assertion, uncaught
//! exception, timeout) are attributed to the operation it had announced and the driver is
//! restarted after it.

use crate::drive::{self, Backend, Outcome};
use crate::front::{explore, tier_name};
use crate::pygen::{descendants, tree_deterministic, value_matches};
use pdl_compiler::backends;
use pdlmc_core::classes;
use pdlmc_core::evidence::Evidence;
use pdlmc_core::graph::Tier;
use pdlmc_core::ir::*;
use pdlmc_core::model::{self, Model, Val};
use pdlmc_core::render;
use pdlmc_core::report::{Reporter, Violation, VERIF_DIR};
use pdlmc_core::rules;
use pdlmc_core::select::{self, Selected};
use pdlmc_core::support::Lang;
use pdlmc_core::values::{self, Budget, ValueGen};
use rayon::prelude::*;
use serde_json::{json, Value as J};
use std::collections::BTreeMap;
use std::fmt::Write as _;
use std::path::{Path, PathBuf};
use std::process::Command;

const PRELUDE: &str = r#"
#include <cstdio>
#include <cstdlib>
#include <cstring>
#include <cstdint>
#include <string>
#include <vector>
#include <array>
#include <optional>
#include <memory>
#include <fstream>
#include <iostream>
#include <sstream>

struct In {
    std::vector<uint64_t> t;
    size_t p = 0;
    uint64_t next() {
        if (p >= t.size()) { fprintf(stderr, "driver: token underrun\n"); exit(3); }
        return t[p++];
    }
};
static void put_u(std::string& o, uint64_t v) { o += std::to_string(v); }
template <class T> static void put_ints(std::string& o, T const& v) {
    o += '[';
    bool first = true;
    for (auto const& x : v) { if (!first) o += ','; first = false; o += std::to_string(static_cast<uint64_t>(x)); }
    o += ']';
}
static void put_hex(std::string& o, std::vector<uint8_t> const& v) {
    static const char* d = "0123456789abcdef";
    if (v.empty()) { o += '-'; return; }
    for (uint8_t b : v) { o += d[b >> 4]; o += d[b & 15]; }
}
static std::vector<uint8_t> unhex(std::string const& s) {
    std::vector<uint8_t> out;
    if (s == "-") return out;
    auto nib = [](char c) -> int { return c <= '9' ? c - '0' : c - 'a' + 10; };
    for (size_t i = 0; i + 1 < s.size(); i += 2) out.push_back(static_cast<uint8_t>(nib(s[i]) * 16 + nib(s[i + 1])));
    return out;
}
static In tokens(std::string const& s) {
    In in;
    std::istringstream is(s);
    uint64_t v;
    while (is >> v) in.t.push_back(v);
    return in;
}
static pdl::packet::slice make_slice(std::string const& hex) {
    return pdl::packet::slice(std::make_shared<const std::vector<uint8_t>>(unhex(hex)));
}
#ifdef NDEBUG
static bool kGettersOnInvalid = true;
#else
static bool kGettersOnInvalid = false;
#endif
typedef void (*op_fn)(std::string const& arg, std::string& out);
"#;

const MAIN: &str = r#"
int main(int argc, char** argv) {
    if (argc < 3) return 2;
    std::ifstream f(argv[1]);
    size_t start = strtoull(argv[2], nullptr, 10);
    size_t quiet_until = argc > 3 ? strtoull(argv[3], nullptr, 10) : 0;
#ifdef NDEBUG
    const bool ndebug = true;
#else
    const bool ndebug = false;
#endif
    std::string line;
    size_t k = 0;
    std::string out;
    while (std::getline(f, line)) {
        if (k < start) { k++; continue; }
        size_t sp = line.find(' ');
        size_t fn = strtoull(line.substr(0, sp).c_str(), nullptr, 10);
        std::string arg = sp == std::string::npos ? std::string() : line.substr(sp + 1);
        printf("@%zu\n", k);
        fflush(stdout);
        out.clear();
        kGettersOnInvalid = ndebug && k >= quiet_until;
        if (fn >= sizeof(OPS) / sizeof(OPS[0])) return 2;
        OPS[fn](arg, out);
        printf("=%s\n", out.c_str());
        k++;
    }
    printf("@done\n");
    fflush(stdout);
    return 0;
}
"#;

fn cxx_scalar(w: u64) -> &'static str {
    match w {
        0..=8 => "uint8_t",
        9..=16 => "uint16_t",
        17..=32 => "uint32_t",
        _ => "uint64_t",
    }
}

/// One constructor parameter / accessor of a generated class.
#[derive(Clone)]
pub struct Param<'a> {
    pub field: &'a Field,
    pub payload: bool,
}

impl Param<'_> {
    pub fn key(&self) -> &str {
        if self.payload {
            "payload"
        } else {
            self.field.id().unwrap()
        }
    }
}

/// Constructor parameters in the order the guide and the repository's own C++ test generator
/// (scripts/generate_cxx_backend_tests.py) prescribe: the fields of the ancestors (root first,
/// without payloads, condition flags and constrained fields), then the declaration's own.
pub fn params<'a>(m: &Model<'a>, ty: &str) -> Vec<Param<'a>> {
    let decl = m.decl(ty);
    let cs = m.all_constraints(ty);
    let mut chain = m.d.ancestry(ty);
    chain.reverse();
    let mut out = vec![];
    for a in chain {
        let flags = m.flags(a);
        for f in a.fields() {
            if f.is_payload() {
                if a.id == decl.id {
                    out.push(Param { field: f, payload: true });
                }
                continue;
            }
            if let Some(id) = f.id() {
                if flags.contains_key(id) || cs.contains_key(id) {
                    continue;
                }
                out.push(Param { field: f, payload: false });
            }
        }
    }
    out
}

struct Emit<'a> {
    m: &'a Model<'a>,
    code: String,
}

impl<'a> Emit<'a> {
    fn elem_cxx(&self, e: &Elem) -> String {
        match e {
            Elem::Width(w) => cxx_scalar(*w).to_string(),
            Elem::Type(t) => t.clone(),
        }
    }

    fn base_cxx(&self, f: &Field) -> String {
        match &f.kind {
            FieldKind::Scalar { width, .. } => cxx_scalar(*width).to_string(),
            FieldKind::Typedef { type_id, .. } => type_id.clone(),
            FieldKind::Array { elem, shape, .. } => match shape {
                Shape::Static(n) => format!("std::array<{}, {}>", self.elem_cxx(elem), n),
                _ => format!("std::vector<{}>", self.elem_cxx(elem)),
            },
            _ => "std::vector<uint8_t>".into(),
        }
    }

    fn is_struct(&self, t: &str) -> bool {
        matches!(self.m.d.get(t).map(|d| &d.kind), Some(DeclKind::Struct { .. }))
    }

    /// expression reading one element of C++ type `ty` from `in`
    fn read_elem(&self, ty: &str, is_type: bool) -> String {
        if is_type && self.is_struct(ty) {
            format!("read_{ty}(in)")
        } else {
            format!("static_cast<{ty}>(in.next())")
        }
    }

    /// statements that declare `var` and read it from `in`
    fn read_param(&self, p: &Param, var: &str) -> String {
        if p.payload {
            return format!("std::vector<uint8_t> {var}; {{ size_t n = in.next(); for (size_t i = 0; i < n; i++) {var}.push_back(static_cast<uint8_t>(in.next())); }}\n");
        }
        let f = p.field;
        let base = self.base_cxx(f);
        match &f.kind {
            FieldKind::Scalar { .. } | FieldKind::Typedef { .. } => {
                let is_type = matches!(f.kind, FieldKind::Typedef { .. });
                let rd = self.read_elem(&base, is_type);
                if f.cond.is_some() {
                    format!("std::optional<{base}> {var}; if (in.next()) {{ {var} = {rd}; }}\n")
                } else {
                    format!("{base} {var} = {rd};\n")
                }
            }
            FieldKind::Array { elem, shape, .. } => {
                let et = self.elem_cxx(elem);
                let rd = self.read_elem(&et, matches!(elem, Elem::Type(_)));
                match shape {
                    Shape::Static(n) => format!("{base} {var}; {{ size_t n = in.next(); if (n != {n}) {{ fprintf(stderr, \"driver: static array length\\n\"); exit(3); }} for (size_t i = 0; i < n; i++) {var}[i] = {rd}; }}\n"),
                    _ => format!("{base} {var}; {{ size_t n = in.next(); for (size_t i = 0; i < n; i++) {var}.push_back({rd}); }}\n"),
                }
            }
            _ => String::new(),
        }
    }

    /// statements appending `"key":value` for the C++ expression `expr` of the field's type
    fn dump_param(&self, p: &Param, expr: &str) -> String {
        let key = p.key();
        let mut s = format!("o += \"\\\"{key}\\\":\";\n");
        if p.payload {
            let _ = writeln!(s, "put_ints(o, {expr});");
            return s;
        }
        let f = p.field;
        let dump_one = |e: &str, ty_is_struct: bool, ty: &str| -> String {
            if ty_is_struct {
                format!("dump_{ty}(o, {e});")
            } else {
                format!("put_u(o, static_cast<uint64_t>({e}));")
            }
        };
        match &f.kind {
            FieldKind::Scalar { .. } | FieldKind::Typedef { .. } => {
                let (is_s, ty) = match &f.kind {
                    FieldKind::Typedef { type_id, .. } => (self.is_struct(type_id), type_id.clone()),
                    _ => (false, String::new()),
                };
                if f.cond.is_some() {
                    let _ = writeln!(s, "{{ auto const& tmp_ = {expr}; if (tmp_.has_value()) {{ {} }} else {{ o += \"null\"; }} }}", dump_one("(*tmp_)", is_s, &ty));
                } else {
                    let _ = writeln!(s, "{}", dump_one(expr, is_s, &ty));
                }
            }
            FieldKind::Array { elem, .. } => {
                let (is_s, ty) = match elem {
                    Elem::Type(t) => (self.is_struct(t), t.clone()),
                    _ => (false, String::new()),
                };
                if is_s {
                    let _ = writeln!(s, "{{ auto const& tmp_ = {expr}; o += '['; bool first = true; for (auto const& x : tmp_) {{ if (!first) o += ','; first = false; dump_{ty}(o, x); }} o += ']'; }}");
                } else {
                    let _ = writeln!(s, "{{ auto const& tmp_ = {expr}; put_ints(o, tmp_); }}");
                }
            }
            _ => {}
        }
        s
    }

    fn emit_struct(&mut self, id: &str) {
        let ps = params(self.m, id);
        // reader
        let mut r = format!("static {id} read_{id}(In& in) {{\n");
        let mut args = vec![];
        for (i, p) in ps.iter().enumerate() {
            r += &self.read_param(p, &format!("a{i}"));
            args.push(format!("std::move(a{i})"));
        }
        if args.is_empty() {
            let _ = writeln!(r, "(void)in;\nreturn {id}();\n}}");
        } else {
            let _ = writeln!(r, "return {id}({});\n}}", args.join(", "));
        }
        // dumper
        let mut d = format!("static void dump_{id}(std::string& o, {id} const& s) {{\no += '{{';\n");
        for (i, p) in ps.iter().enumerate() {
            if i > 0 {
                d += "o += ',';\n";
            }
            d += &self.dump_param(p, &format!("s.{}_", p.key()));
        }
        d += "o += '}';\n}\n";
        // ops: build (tokens -> hex size) and parse (hex -> consumed + value)
        let _ = writeln!(
            d,
            "static void opb_{id}(std::string const& arg, std::string& out) {{\nIn in = tokens(arg);\n{id} v = read_{id}(in);\nstd::vector<uint8_t> b = v.SerializeToBytes();\nout += \"ok \"; put_hex(out, b); out += ' '; put_u(out, v.GetSize());\n}}"
        );
        let _ = writeln!(
            d,
            "static void opp_{id}(std::string const& arg, std::string& out) {{\npdl::packet::slice s = make_slice(arg);\nsize_t before = s.size();\n{id} v;\nbool ok = {id}::Parse(s, &v);\nif (!ok) {{ out += '0'; return; }}\nout += \"1 \"; put_u(out, before - s.size()); out += ' '; dump_{id}(out, v);\n}}"
        );
        self.code += &r;
        self.code += &d;
    }

    fn emit_packet(&mut self, id: &str) {
        let ps = params(self.m, id);
        let mut b = format!("static void opb_{id}(std::string const& arg, std::string& out) {{\nIn in = tokens(arg);\n");
        let mut args = vec![];
        for (i, p) in ps.iter().enumerate() {
            b += &self.read_param(p, &format!("a{i}"));
            args.push(format!("std::move(a{i})"));
        }
        let ctor = if args.is_empty() { format!("{id}Builder v;") } else { format!("{id}Builder v({});", args.join(", ")) };
        let _ = writeln!(b, "{ctor}\nstd::vector<uint8_t> b = v.SerializeToBytes();\nout += \"ok \"; put_hex(out, b); out += ' '; put_u(out, v.GetSize());\n}}");
        // view chain from the root
        let mut chain = self.m.d.ancestry(id);
        chain.reverse();
        let mut create = "make_slice(arg)".to_string();
        for a in &chain {
            create = format!("{}View::Create({create})", a.id);
        }
        // accessors: every data field of the value type (own and inherited), own payload
        let mut acc = params(self.m, id);
        // a child of a parent with payload whose own declaration has none: no GetPayload
        acc.retain(|p| !p.payload || self.m.decl(id).payload().is_some());
        let mut p = format!("static void opp_{id}(std::string const& arg, std::string& out) {{\n{id}View v = {create};\nbool valid = v.IsValid();\nout += valid ? '1' : '0';\nif (!valid && !kGettersOnInvalid) return;\nstd::string o;\no += '{{';\n");
        for (i, a) in acc.iter().enumerate() {
            if i > 0 {
                p += "o += ',';\n";
            }
            let getter = if a.payload { "GetPayload".to_string() } else { format!("Get{}", classes::camel(a.key())) };
            p += &self.dump_param(a, &format!("v.{getter}()"));
        }
        p += "o += '}';\nout += ' ';\nif (valid) out += o; else put_u(out, o.size());\n}\n";
        self.code += &b;
        self.code += &p;
    }
}

/// Driver section of one state: (code, op function names, op table (big, type, kind)); kind:
/// 'b' build, 'p' parse. `ns` is the state's namespace prefix.
fn emit_unit(m: &Model, types: &[String], ns: &str) -> (String, Vec<String>, Vec<(bool, String, char)>) {
    let mut code = String::new();
    let mut table = vec![];
    let mut fns = vec![];
    for (big, bo) in [(false, "le"), (true, "be")] {
        let mut e = Emit { m, code: String::new() };
        // forward declarations for the struct helpers (structs may refer to each other)
        for t in types {
            if e.is_struct(t) {
                let _ = writeln!(e.code, "static {t} read_{t}(In& in);\nstatic void dump_{t}(std::string& o, {t} const& s);");
            }
        }
        for t in types {
            if e.is_struct(t) {
                e.emit_struct(t);
            } else {
                e.emit_packet(t);
            }
            table.push((big, t.clone(), 'b'));
            fns.push(format!("drv_{ns}{bo}::opb_{t}"));
            table.push((big, t.clone(), 'p'));
            fns.push(format!("drv_{ns}{bo}::opp_{t}"));
        }
        let _ = writeln!(code, "namespace drv_{ns}{bo} {{\nusing namespace {ns}{bo};\n{}\n}}", e.code);
    }
    (code, fns, table)
}

/// a value in which an array that has an `_elementsize_` field is empty (anywhere inside)
pub fn empty_elementsize_array(m: &Model, ty: &str, v: &Val) -> bool {
    let rec = match v {
        Val::Rec(r) => r,
        _ => return false,
    };
    for a in m.d.ancestry(ty) {
        for f in a.fields() {
            if let FieldKind::ElementSize { field_id, .. } = &f.kind {
                match rec.get(field_id) {
                    Some(Val::Arr(x)) if x.is_empty() => return true,
                    Some(Val::Bytes(x)) if x.is_empty() => return true,
                    _ => {}
                }
            }
            let (id, t) = match &f.kind {
                FieldKind::Typedef { id, type_id } => (id, type_id),
                FieldKind::Array { id, elem: Elem::Type(t), .. } => (id, t),
                _ => continue,
            };
            if !matches!(m.d.get(t).map(|d| &d.kind), Some(DeclKind::Struct { .. })) {
                continue;
            }
            match rec.get(id) {
                Some(Val::Arr(xs)) => {
                    if xs.iter().any(|x| empty_elementsize_array(m, t, x)) {
                        return true;
                    }
                }
                Some(Val::Opt(Some(x))) => {
                    if empty_elementsize_array(m, t, x) {
                        return true;
                    }
                }
                Some(x @ Val::Rec(_)) => {
                    if empty_elementsize_array(m, t, x) {
                        return true;
                    }
                }
                _ => {}
            }
        }
    }
    false
}

fn flatten_elem(m: &Model, is_struct: Option<&str>, v: &Val, out: &mut Vec<u64>) {
    match is_struct {
        Some(s) => flatten(m, s, v, out),
        None => out.push(v.int()),
    }
}

/// model value -> token stream in constructor-parameter order
pub fn flatten(m: &Model, ty: &str, v: &Val, out: &mut Vec<u64>) {
    let rec = v.rec();
    for p in params(m, ty) {
        if p.payload {
            match rec.get("payload") {
                Some(Val::Bytes(b)) => {
                    out.push(b.len() as u64);
                    out.extend(b.iter().map(|x| *x as u64));
                }
                _ => out.push(0),
            }
            continue;
        }
        let f = p.field;
        let x = match rec.get(f.id().unwrap()) {
            Some(x) => x,
            None => panic!("value of {ty} lacks {}", f.id().unwrap()),
        };
        let struct_of = |t: &str| -> bool { matches!(m.d.get(t).map(|d| &d.kind), Some(DeclKind::Struct { .. })) };
        match &f.kind {
            FieldKind::Scalar { .. } | FieldKind::Typedef { .. } => {
                let st = match &f.kind {
                    FieldKind::Typedef { type_id, .. } if struct_of(type_id) => Some(type_id.as_str()),
                    _ => None,
                };
                if f.cond.is_some() {
                    match x {
                        Val::Opt(Some(i)) => {
                            out.push(1);
                            flatten_elem(m, st, i, out);
                        }
                        _ => out.push(0),
                    }
                } else {
                    flatten_elem(m, st, x, out);
                }
            }
            FieldKind::Array { elem, .. } => {
                let st = match elem {
                    Elem::Type(t) if struct_of(t) => Some(t.as_str()),
                    _ => None,
                };
                match x {
                    Val::Arr(a) => {
                        out.push(a.len() as u64);
                        for e in a {
                            flatten_elem(m, st, e, out);
                        }
                    }
                    Val::Bytes(b) => {
                        out.push(b.len() as u64);
                        out.extend(b.iter().map(|x| *x as u64));
                    }
                    _ => out.push(0),
                }
            }
            _ => {}
        }
    }
}

#[derive(Clone)]
pub enum OpIn {
    Build(Val),
    Parse(Vec<u8>),
}

pub struct Op {
    pub big: bool,
    pub ty: String,
    pub input: OpIn,
    pub fn_idx: usize,
}

#[derive(Debug, Clone)]
pub enum OpOut {
    Line(String),
    Died(String),
    NotRun,
}

/// Run the driver over the task file, restarting after every death. After `GETTER_DEATHS`
/// deaths the remaining operations run with getters on *invalid* views switched off (only
/// meaningful in the NDEBUG build, where they are on): returns the results and the index from
/// which that mode was in force.
fn run_driver(bin: &Path, task: &Path, n_ops: usize, unit_ends: &[usize]) -> (Vec<OpOut>, usize) {
    run_driver_with(n_ops, GETTER_DEATHS, &bin.with_extension("out"), unit_ends, &|start, quiet_until| {
        let mut c = Command::new("timeout");
        // whole-task wall limit: generous, a verdict must not depend on the load of the machine
        c.args(["-s", "KILL", "3600"])
            .arg(bin)
            .arg(task)
            .arg(start.to_string())
            .arg(quiet_until.to_string())
            .env("ASAN_OPTIONS", "detect_leaks=0:abort_on_error=0:color=never:allocator_may_return_null=0:max_allocation_size_mb=1024")
            .env("UBSAN_OPTIONS", "print_stacktrace=0:color=never");
        c
    })
}

/// The announce/restart protocol shared by the out-of-process drivers (C++, Java): `make(start,
/// quiet)` builds the command that executes the task file from operation `start`.
pub fn run_driver_with(n_ops: usize, quiet_after: usize, out_file: &Path, unit_ends: &[usize], make: &dyn Fn(usize, usize) -> Command) -> (Vec<OpOut>, usize) {
    let mut res: Vec<OpOut> = vec![OpOut::NotRun; n_ops];
    let mut start = 0usize;
    let mut restarts = 0;
    // deaths are counted per unit (state): after `quiet_after` deaths the rest of *that unit*
    // runs without getters on invalid views, after UNIT_DEATH_CAP its remaining operations are
    // left unexecuted; other units of the group are not affected
    let unit_end_of = |k: usize| unit_ends.iter().copied().find(|e| k < *e).unwrap_or(n_ops);
    let mut cur_unit_end = unit_end_of(0);
    let mut deaths_in_unit = 0usize;
    let mut quiet_until = 0usize;
    let mut quiet_ops = 0usize;
    while start < n_ops && restarts < DEATH_CAP {
        if start >= cur_unit_end {
            cur_unit_end = unit_end_of(start);
            deaths_in_unit = 0;
        }
        if deaths_in_unit >= UNIT_DEATH_CAP {
            start = cur_unit_end;
            continue;
        }
        if deaths_in_unit >= quiet_after && quiet_until < cur_unit_end {
            quiet_ops += cur_unit_end - start.max(quiet_until);
            quiet_until = cur_unit_end;
        }
        // the driver's stdout goes to a file, not a pipe: it flushes after every announcement,
        // and a write into a pipe costs a context switch each time
        let of = match std::fs::File::create(out_file) {
            Ok(f) => f,
            Err(_) => break,
        };
        let out = make(start, quiet_until).stdout(of).output();
        let out = match out {
            Ok(o) => o,
            Err(_) => break,
        };
        let stdout_bytes = std::fs::read(out_file).unwrap_or_default();
        let stdout = String::from_utf8_lossy(&stdout_bytes);
        let mut cur: Option<usize> = None;
        let mut done = false;
        for l in stdout.lines() {
            if l == "@done" {
                done = true;
            } else if let Some(k) = l.strip_prefix('@') {
                cur = k.parse().ok();
            } else if let Some(r) = l.strip_prefix('=') {
                if let Some(k) = cur.take() {
                    if k < n_ops {
                        res[k] = OpOut::Line(r.to_string());
                    }
                }
            }
        }
        if done {
            break;
        }
        // death: attribute to the announced operation
        let stderr = String::from_utf8_lossy(&out.stderr);
        let headline = death_headline(&stderr, out.status.code());
        match cur {
            Some(k) if k < n_ops => {
                res[k] = OpOut::Died(headline);
                if k >= cur_unit_end {
                    cur_unit_end = unit_end_of(k);
                    deaths_in_unit = 0;
                }
                deaths_in_unit += 1;
                start = k + 1;
            }
            _ => break,
        }
        restarts += 1;
    }
    (res, quiet_ops)
}

fn death_headline(stderr: &str, code: Option<i32>) -> String {
    if let Some(l) = stderr.lines().find(|l| l.starts_with("Exception in thread") || l.contains("java.lang.") && l.contains("Error")) {
        return format!("jvm:{}", l.chars().take(80).collect::<String>());
    }
    for l in stderr.lines() {
        if let Some(p) = l.find("ERROR: AddressSanitizer:") {
            let rest = &l[p + 24..];
            let kind: String = rest.trim().split(' ').next().unwrap_or("").to_string();
            return format!("asan:{kind}");
        }
        if l.contains("runtime error:") {
            let msg = l.split("runtime error:").nth(1).unwrap_or("").trim();
            let norm: String = msg.chars().map(|c| if c.is_ascii_digit() { '#' } else { c }).collect();
            let mut short = String::new();
            let mut prev = ' ';
            for c in norm.chars() {
                if !(c == '#' && prev == '#') {
                    short.push(c);
                }
                prev = c;
            }
            return format!("ubsan:{}", short.chars().take(60).collect::<String>());
        }
        if l.contains("Assertion") && l.contains("failed") {
            let what = l.split("Assertion").nth(1).unwrap_or("").trim();
            let func = l.split(':').nth(2).unwrap_or("").trim();
            let func: String = func.split('(').next().unwrap_or("").split(' ').last().unwrap_or("").to_string();
            return format!("assert:{} in {}", what.trim_end_matches('.').trim_end_matches(" failed"), func);
        }
        if l.contains("terminate called") {
            return format!("uncaught-exception:{}", l.split("instance of").nth(1).unwrap_or("").trim().trim_matches('\''));
        }
        if l.starts_with("driver:") {
            return format!("driver-error:{l}");
        }
    }
    match code {
        Some(137) | None => "timeout-or-killed".into(),
        Some(c) => format!("exit-{c}"),
    }
}

/// deaths attributed per (state, build) before the rest of its operations is left unexecuted
const DEATH_CAP: usize = 2000;
/// deaths attributed to one state before its remaining operations are left unexecuted
const UNIT_DEATH_CAP: usize = 60;
/// deaths after which getters are no longer called on invalid views (NDEBUG build)
const GETTER_DEATHS: usize = 4;

struct Built {
    asserts: Option<PathBuf>,
    ndebug: Option<PathBuf>,
    error: Option<String>,
}

const STD_INCLUDES: &str = "#include <cstdio>\n#include <cstdlib>\n#include <cstring>\n#include <cstdint>\n#include <string>\n#include <vector>\n#include <array>\n#include <optional>\n#include <memory>\n#include <fstream>\n#include <iostream>\n#include <sstream>\n#include <utility>\n#include <numeric>\n#include <cassert>\n#include <packet_runtime.h>\n";

fn cxx_flags(thorough: bool) -> Vec<&'static str> {
    vec!["-std=c++17", if thorough { "-O1" } else { "-O0" }, "-g0", "-w", "-fsanitize=address,undefined", "-fno-sanitize-recover=all", "-I", "/repo/pdl-compiler/scripts"]
}

/// One state prepared for the C++ tier.
pub struct Unit {
    pub st: Selected,
    inl_le: Desc,
    inl_be: Desc,
    text_le: String,
    text_be: String,
    ns: String,
    code: String,
    fns: Vec<String>,
    pub ops: Vec<Op>,
}

fn write_tu(dir: &Path, units: &[&Unit]) {
    let mut code = String::from(STD_INCLUDES);
    for u in units {
        let _ = writeln!(code, "#include \"{0}_le.h\"\n#include \"{0}_be.h\"", u.ns);
    }
    code += PRELUDE;
    let mut fns: Vec<&str> = vec![];
    for u in units {
        code += &u.code;
        fns.extend(u.fns.iter().map(|s| s.as_str()));
    }
    let _ = writeln!(code, "static const op_fn OPS[] = {{ {} }};", fns.join(", "));
    code += MAIN;
    std::fs::write(dir.join("drv.cc"), code).expect("write");
    // task file: the units' operations back to back, function indices offset per unit
    let mut task = String::new();
    let mut off = 0usize;
    for u in units {
        let m_le = Model::new(&u.inl_le);
        let m_be = Model::new(&u.inl_be);
        for op in &u.ops {
            match &op.input {
                OpIn::Build(v) => {
                    let mut toks = vec![];
                    flatten(if op.big { &m_be } else { &m_le }, &op.ty, v, &mut toks);
                    let _ = writeln!(task, "{} {}", off + op.fn_idx, toks.iter().map(|t| t.to_string()).collect::<Vec<_>>().join(" "));
                }
                OpIn::Parse(b) => {
                    let _ = writeln!(task, "{} {}", off + op.fn_idx, if b.is_empty() { "-".to_string() } else { model::hex(b) });
                }
            }
        }
        off += u.fns.len();
    }
    std::fs::write(dir.join("task.txt"), task).expect("write");
}

fn compile(dir: &Path, hdr: &Path, thorough: bool, want_ndebug: bool) -> Built {
    let mut b = Built { asserts: None, ndebug: None, error: None };
    for (name, extra) in [("drv_assert", None), ("drv_ndebug", Some("-DNDEBUG"))] {
        if extra.is_some() && !want_ndebug {
            continue;
        }
        let bin = dir.join(name);
        let mut c = Command::new("g++");
        c.args(cxx_flags(thorough)).arg("-I").arg(hdr);
        if let Some(x) = extra {
            c.arg(x);
        }
        c.arg(dir.join("drv.cc")).arg("-o").arg(&bin);
        match c.output() {
            Ok(o) if o.status.success() => {
                if extra.is_some() {
                    b.ndebug = Some(bin)
                } else {
                    b.asserts = Some(bin)
                }
            }
            Ok(o) => {
                // the whole diagnostic text: the caller attributes the errors to states
                b.error = Some(String::from_utf8_lossy(&o.stderr).to_string());
                return b;
            }
            Err(e) => {
                b.error = Some(format!("cannot run g++: {e}"));
                return b;
            }
        }
    }
    b
}

fn gen_header(text: &str, ns: &str) -> Result<String, String> {
    let run = drive::run_text_named(text, "t.pdl");
    match &run.outcome {
        Outcome::Accepted => {}
        o => return Err(format!("not accepted: {o:?}")),
    }
    let analyzed = run.analyzed.as_ref().unwrap();
    drive::guarded(|| backends::cxx::generate(&run.sources, analyzed, Some(ns), &[], &[], &[]))
}

/// Generate headers and the driver section, enumerate the operations of one state.
/// Operations supplied from outside (C07): (type, input) lists per byte order, in order.
pub struct ExtOps {
    pub le: Vec<(String, OpIn)>,
    pub be: Vec<(String, OpIn)>,
}

pub fn prepare(st: &Selected, hdr: &Path, thorough: bool, skipped_unspecified: &std::sync::atomic::AtomicUsize, ext: Option<&ExtOps>) -> Option<Unit> {
    let d_le = st.desc.with_endian(Endian::Little);
    let d_be = st.desc.with_endian(Endian::Big);
    let (inl_le, inl_be) = match (rules::inline_groups(&d_le), rules::inline_groups(&d_be)) {
        (Some(a), Some(b)) => (a, b),
        _ => return None,
    };
    let text_le = render::canonical(&d_le);
    let text_be = render::canonical(&d_be);
    let ns = format!("s{}", st.id);
    let (h_le, h_be) = match (gen_header(&text_le, &format!("{ns}le")), gen_header(&text_be, &format!("{ns}be"))) {
        (Ok(a), Ok(b)) => (a, b),
        _ => return None, // generator panics are C10's business
    };
    std::fs::write(hdr.join(format!("{ns}_le.h")), h_le).expect("write");
    std::fs::write(hdr.join(format!("{ns}_be.h")), h_be).expect("write");
    let types: Vec<String> = inl_le.decls.iter().filter(|d| d.is_pkt_or_struct() && crate::front::encodable(&inl_le, &d.id)).map(|d| d.id.clone()).collect();
    let mut ops: Vec<Op> = vec![];
    let (code, fns, table) = {
        let m_le = Model::new(&inl_le);
        let m_be = Model::new(&inl_be);
        let (code, fns, table) = emit_unit(&m_le, &types, &ns);
        let fn_idx = |big: bool, ty: &str, kind: char| table.iter().position(|(b, t, k)| *b == big && t == ty && *k == kind).unwrap();
        if let Some(ext) = ext {
            for (big, list) in [(false, &ext.le), (true, &ext.be)] {
                for (ty, input) in list {
                    if !types.contains(ty) {
                        continue;
                    }
                    let kind = if matches!(input, OpIn::Build(_)) { 'b' } else { 'p' };
                    ops.push(Op { big, ty: ty.clone(), input: input.clone(), fn_idx: fn_idx(big, ty, kind) });
                }
            }
        }
        for (big, m, inl) in [(false, &m_le, &inl_le), (true, &m_be, &inl_be)] {
            if ext.is_some() {
                break;
            }
            let vg = ValueGen { m, budget: if thorough { Budget { max_values: 400, pairs: true, nested_alts: 4, max_array_len: 300 } } else { Budget { max_values: 60, pairs: true, nested_alts: 3, max_array_len: 20 } } };
            for ty in &types {
                let decl = m.decl(ty);
                let vals: Vec<Val> = vg.values(ty).ok.into_iter().filter(|v| m.encode(ty, v).is_ok()).collect();
                for v in vals {
                    if empty_elementsize_array(m, ty, &v) {
                        // `_elementsize_` is not described by reference.md; what it holds
                        // for an empty array is unspecified (0, or the static element size)
                        skipped_unspecified.fetch_add(1, std::sync::atomic::Ordering::Relaxed);
                        continue;
                    }
                    ops.push(Op { big, ty: ty.clone(), input: OpIn::Build(v), fn_idx: fn_idx(big, ty, 'b') });
                }
                if decl.parent().is_none() && classes::deterministic(inl, ty).is_ok() && tree_deterministic(inl, ty) {
                    let mut inputs = values::input_set(m, ty, big, thorough, if thorough { 200 } else { 8 });
                    let desc = descendants(inl, ty);
                    for dty in &desc {
                        if !crate::front::encodable(inl, dty) {
                            continue;
                        }
                        for v in vg.values(dty).ok.iter().take(if thorough { 100 } else { 5 }) {
                            if let Ok(enc) = m.encode(dty, v) {
                                if enc.bytes.len() <= 2048 {
                                    inputs.push(enc.bytes.clone());
                                    values::for_all_mutants(&enc, big, &mut |b: &[u8]| {
                                        if inputs.len() < (if thorough { 40000 } else { 5000 }) {
                                            inputs.push(b.to_vec())
                                        }
                                    });
                                }
                            }
                        }
                    }
                    inputs.sort();
                    inputs.dedup();
                    let mut tys = vec![ty.clone()];
                    if decl.is_packet() {
                        tys.extend(desc.into_iter().filter(|t| types.contains(t)));
                    }
                    for t in &tys {
                        for b in &inputs {
                            ops.push(Op { big, ty: t.clone(), input: OpIn::Parse(b.clone()), fn_idx: fn_idx(big, t, 'p') });
                        }
                    }
                }
            }
        }
        (code, fns, table)
    };
    let _ = table;
    Some(Unit { st: st.clone(), inl_le, inl_be, text_le, text_be, ns, code, fns, ops })
}

type Verdicts = (Reporter, BTreeMap<String, usize>, Option<J>);

/// Evaluate every oracle on the driver's observations of one state.
fn evaluate(u: &Unit, res_a: &[OpOut], res_n: &[OpOut], quiet_ops: usize, machinery_errors: &std::sync::atomic::AtomicUsize) -> Verdicts {
    let mut rep = Reporter::new("C14");
    let mut c: BTreeMap<String, usize> = BTreeMap::new();
    let st = &u.st;
    let m_le = Model::new(&u.inl_le);
    let m_be = Model::new(&u.inl_be);
    let (inl_le, inl_be, text_le, text_be) = (&u.inl_le, &u.inl_be, &u.text_le, &u.text_be);
    let ops = &u.ops;
    let base = |big: bool, ty: &str| json!({"state": st.id, "family": st.family, "endianness": if big {"big"} else {"little"}, "type": ty, "source": if big { text_be } else { text_le }});
    *c.entry("states-compiled".into()).or_default() += 1;
    if quiet_ops > 0 {
        *c.entry("ndebug-ops-run-without-getters-on-invalid-views".into()).or_default() += quiet_ops;
    }
    let mut inc = |k: &str| *c.entry(k.to_string()).or_default() += 1;
    let mut rare_cache: std::collections::HashMap<(bool, String), Vec<&str>> = std::collections::HashMap::new();
    for (k, op) in ops.iter().enumerate() {
        let m = if op.big { &m_be } else { &m_le };
        let inl = if op.big { &inl_be } else { &inl_le };
        let is_struct = m.decl(&op.ty).is_struct();
        let rare: &Vec<&str> = rare_cache.entry((op.big, op.ty.clone())).or_insert_with(|| {
            let cls = classes::construct_classes(inl, &op.ty);
            let mut rare: Vec<&str> = cls.iter().copied().filter(|c| ["padded-array", "payload-with-modifier", "elementsize-array", "optional", "enum-array", "array-modifier"].contains(c)).collect();
            rare.extend(cxx_markers(inl, &op.ty));
            rare
        });
        for (build, res) in [("assert", &res_a[k]), ("ndebug", &res_n[k])] {
            let line = match res {
                OpOut::Line(l) => l.clone(),
                OpOut::NotRun => {
                    // only after DEATH_CAP attributed deaths in this state and build
                    inc("ops-not-executed-after-death-cap");
                    continue;
                }
                OpOut::Died(how) => {
                    inc("outcome:process-died");
                    if how.starts_with("driver-error") {
                        machinery_errors.fetch_add(1, std::sync::atomic::Ordering::Relaxed);
                        continue;
                    }
                    let (opname, input) = match &op.input {
                        OpIn::Build(v) => ("serialize", v.to_json()),
                        OpIn::Parse(b) => ("parse", json!(model::hex(b))),
                    };
                    let expect = match &op.input {
                        OpIn::Parse(b) => {
                            if is_struct {
                                if m.decode(&op.ty, b).is_ok() { "accepts" } else { "rejects" }
                            } else if m.decode_full(&op.ty, b).is_ok() { "accepts" } else { "rejects" }
                        }
                        _ => "n/a",
                    };
                    rep.report(Violation {
                        property: "C14".into(),
                        sig: format!("driver-death op={opname} kind={} how={how} build={build} reference={expect} rare-constructs={rare:?}", if is_struct { "struct" } else { "packet" }),
                        detail: json!({"state": base(op.big, &op.ty), "input": input, "death": how}),
                    });
                    continue;
                }
            };
            match &op.input {
                OpIn::Build(v) => {
                    if build == "ndebug" && matches!(&res_a[k], OpOut::Line(l) if *l == line) {
                        continue; // same observation as the assert build, judged once
                    }
                    inc("values");
                    let want = match m.encode(&op.ty, v) {
                        Ok(e) => e,
                        Err(_) => continue,
                    };
                    let mut it = line.split(' ');
                    let (_ok, hex, size) = (it.next(), it.next().unwrap_or(""), it.next().unwrap_or(""));
                    let got = if hex == "-" { vec![] } else { model::unhex(hex) };
                    inc("outcome:serialized");
                    if got != want.bytes {
                        let pos = got.iter().zip(want.bytes.iter()).position(|(a, b)| a != b).unwrap_or(got.len().min(want.bytes.len()));
                        let chunk = diff_site(&want, &got, pos, op.big);
                        rep.report(Violation {
                            property: "C14".into(),
                            sig: format!("serialization-differs-from-reference first-difference-in={chunk} rare-constructs={rare:?}"),
                            detail: json!({"state": base(op.big, &op.ty), "value": v.to_json(), "expected": model::hex(&want.bytes), "observed": hex, "build": build}),
                        });
                    }
                    if size.parse::<usize>().ok() != Some(got.len()) {
                        rep.report(Violation {
                            property: "C14".into(),
                            sig: format!("GetSize-differs-from-serialized-length rare-constructs={rare:?}"),
                            detail: json!({"state": base(op.big, &op.ty), "value": v.to_json(), "GetSize": size, "serialized_length": got.len(), "build": build}),
                        });
                    }
                }
                OpIn::Parse(b) => {
                    if build == "ndebug" {
                        // the NDEBUG build is judged on memory safety (deaths) and on
                        // agreeing with the assert build about validity
                        let va = matches!(&res_a[k], OpOut::Line(l) if l.starts_with('1'));
                        let vn = line.starts_with('1');
                        if matches!(&res_a[k], OpOut::Line(_)) && va != vn {
                            rep.report(Violation {
                                property: "C14".into(),
                                sig: "validity-differs-between-assert-and-NDEBUG-builds".into(),
                                detail: json!({"state": base(op.big, &op.ty), "input": model::hex(b)}),
                            });
                        }
                        inc("ndebug-parse-inputs");
                        continue;
                    }
                    inc("parse-inputs");
                    let valid = line.starts_with('1');
                    let want: Result<(Val, usize), _> = if is_struct { m.decode(&op.ty, b) } else { m.decode_full(&op.ty, b).map(|v| (v, b.len())) };
                    match (&want, valid) {
                        (Ok((v, n)), true) => {
                            inc("outcome:both-accept");
                            let rest = &line[1..].trim_start();
                            let (consumed, js) = if is_struct {
                                let mut it = rest.splitn(2, ' ');
                                (it.next().and_then(|s| s.parse::<usize>().ok()), it.next().unwrap_or(""))
                            } else {
                                (Some(*n), *rest)
                            };
                            let got: J = serde_json::from_str(js).unwrap_or(J::Null);
                            if consumed != Some(*n) {
                                rep.report(Violation {
                                    property: "C14".into(),
                                    sig: format!("struct-Parse-consumes-a-different-length rare-constructs={rare:?}"),
                                    detail: json!({"state": base(op.big, &op.ty), "input": model::hex(b), "expected": n, "observed": consumed}),
                                });
                            } else if !value_matches(v, &got) {
                                rep.report(Violation {
                                    property: "C14".into(),
                                    sig: format!("getters-differ-from-reference kind={} rare-constructs={rare:?}", if is_struct { "struct" } else { "packet" }),
                                    detail: json!({"state": base(op.big, &op.ty), "input": model::hex(b), "expected": v.to_json(), "observed": got}),
                                });
                            }
                        }
                        (Err(_), false) => inc("outcome:both-reject"),
                        (Ok((v, _)), false) => {
                            inc("outcome:disagree");
                            rep.report(Violation {
                                property: "C14".into(),
                                sig: format!("reference-accepts-view-invalid kind={} rare-constructs={rare:?}", if is_struct { "struct" } else { "packet" }),
                                detail: json!({"state": base(op.big, &op.ty), "input": model::hex(b), "expected": v.to_json()}),
                            });
                        }
                        (Err(f), true) => {
                            inc("outcome:disagree");
                            let at = m.length_ctx.get();
                            // classification only: would the reference accept if the
                            // elements of the outermost arrays were not looked at?
                            m.lenient_elems.set(true);
                            let lenient_ok = if is_struct { m.decode(&op.ty, b).is_ok() } else { m.decode_full(&op.ty, b).is_ok() };
                            m.lenient_elems.set(false);
                            let what = if lenient_ok && !is_struct { "array-elements-not-validated-by-view" } else { "reference-rejects-view-valid" };
                            rep.report(Violation {
                                property: "C14".into(),
                                sig: format!("{what} faults={:?} at={} kind={} rare-constructs={rare:?}", f, at, if is_struct { "struct" } else { "packet" }),
                                detail: json!({"state": base(op.big, &op.ty), "input": model::hex(b), "observed": line}),
                            });
                        }
                    }
                }
            }
        }
    }
    let sample = if st.depth >= 2 { Some(json!({"state": st.id, "ops": ops.len(), "source": text_le})) } else { None };
    (rep, c, sample)
}

/// Where two encodings first differ, in terms of the reference layout: the chunk kind and, in a
/// bit-field group, the kind of the first member whose bits differ.
pub fn diff_site(want: &model::Enc, got: &[u8], pos: usize, big: bool) -> String {
    let c = match want.chunks.iter().find(|c| c.start <= pos && pos < c.start + c.len.max(1)) {
        Some(c) => c,
        None => return "length".into(),
    };
    match &c.kind {
        model::ChunkKind::Group(members) => {
            let word = |b: &[u8]| -> u128 {
                let mut v: u128 = 0;
                for (i, x) in b.iter().enumerate() {
                    let sh = if big { 8 * (b.len() - 1 - i) } else { 8 * i };
                    if sh < 128 {
                        v |= (*x as u128) << sh;
                    }
                }
                v
            };
            if c.start + c.len > got.len() {
                return "bit-field-group member-kind=truncated".into();
            }
            let (w, g) = (word(&want.bytes[c.start..c.start + c.len]), word(&got[c.start..c.start + c.len]));
            for m in members {
                let mask: u128 = if m.width >= 128 { u128::MAX } else { (1u128 << m.width) - 1 };
                if (w >> m.shift) & mask != (g >> m.shift) & mask {
                    return format!("bit-field-group member-kind={:?}", m.kind);
                }
            }
            "bit-field-group member-kind=none".into()
        }
        model::ChunkKind::Word => "word".into(),
        model::ChunkKind::Bytes => "bytes".into(),
        model::ChunkKind::Padding => "padding".into(),
    }
}

/// Constructs on which the C++ backend is known to misbehave (used in signatures only).
pub fn cxx_markers(inl: &Desc, ty: &str) -> Vec<&'static str> {
    let mut rare = vec![];
    if inl.ancestry(ty).iter().skip(1).any(|a| a.fields().iter().position(|f| f.is_payload()).map(|p| p + 1 < a.fields().len()).unwrap_or(false)) {
        rare.push("fields-after-parent-payload");
    }
    if let Some(decl) = inl.get(ty) {
        if decl.parent().is_some() && decl.fields().iter().any(|f| pdlmc_core::rules::is_bitfield(inl, f) && pdlmc_core::rules::bitfield_width(inl, f).map(|w| w % 8 != 0).unwrap_or(false)) {
            rare.push("child-with-sub-octet-fields");
        }
        let _ = decl;
        if inl.ancestry(ty).iter().any(|a| a.parent().is_some() && a.payload().is_some() && a.fields().iter().any(|f| !f.is_payload())) {
            rare.push("child-with-fields-and-own-payload");
        }
    }
    if inl.ancestry(ty).iter().skip(1).any(|a| a.fields().iter().any(|f| matches!(f.kind, FieldKind::Count { .. }))) {
        rare.push("inherited-counted-array");
    }
    rare
}

/// a struct that reaches itself through its fields (legal through unsized arrays)
pub fn has_struct_cycle(d: &Desc) -> bool {
    fn reach(d: &Desc, from: &str, target: &str, seen: &mut Vec<String>) -> bool {
        if seen.iter().any(|s| s == from) {
            return false;
        }
        seen.push(from.to_string());
        let decl = match d.get(from) {
            Some(x) => x,
            None => return false,
        };
        for f in decl.fields() {
            let t = match &f.kind {
                FieldKind::Typedef { type_id, .. } => type_id,
                FieldKind::Array { elem: Elem::Type(t), .. } => t,
                _ => continue,
            };
            if t == target || reach(d, t, target, seen) {
                return true;
            }
        }
        false
    }
    d.decls.iter().filter(|x| x.is_struct()).any(|x| reach(d, &x.id, &x.id, &mut vec![]))
}

fn compile_failure(u: &Unit, err: &str) -> Verdicts {
    let mut rep = Reporter::new("C14");
    let mut c: BTreeMap<String, usize> = BTreeMap::new();
    // the driver is compiled against the generated header: a mismatch is either a header that
    // is not valid C++ (a C10/C14 matter) or a driver/API mismatch
    let norm: String = err.split("error:").nth(1).unwrap_or(err).chars().map(|ch| if ch.is_ascii_digit() { '#' } else { ch }).take(80).collect();
    let in_header = err.contains("_le.h") || err.contains("_be.h");
    rep.report(Violation {
        property: "C14".into(),
        sig: format!("generated-header-or-driver-does-not-compile in={} error={}{}", if in_header { "header" } else { "driver" }, norm.trim(), if has_struct_cycle(&u.inl_le) { " recursive-structs" } else { "" }),
        detail: json!({"state": {"state": u.st.id, "family": u.st.family, "source": u.text_le}, "error": err}),
    });
    *c.entry("states-not-compiled".into()).or_default() += 1;
    (rep, c, None)
}

/// Compile and run a group of states as one translation unit; on a compile error fall back to
/// one translation unit per state so that the error is attributed.
/// What running one state's operations gave: a compile error attributed to it, or the raw
/// observations of the assert build and (if requested) the NDEBUG build.
pub enum Raw {
    CompileError(String),
    Ran { res_a: Vec<OpOut>, res_n: Option<Vec<OpOut>>, quiet_ops: usize },
}

pub struct Timers {
    pub cc: std::sync::atomic::AtomicU64,
    pub run: std::sync::atomic::AtomicU64,
}

/// Compile and run a group of states as one translation unit; compile errors are attributed to
/// the states g++ names (header s<id>_le.h / driver namespace drv_s<id>le) and the rest is
/// recompiled; if nothing can be attributed, one translation unit per state. The result is
/// aligned with `units`.
pub fn run_group_raw(units: &[&Unit], dir: &Path, hdr: &Path, thorough: bool, want_ndebug: bool, t: &Timers) -> Vec<Raw> {
    std::fs::create_dir_all(dir).expect("mkdir");
    write_tu(dir, units);
    let t0 = std::time::Instant::now();
    let built = compile(dir, hdr, thorough, want_ndebug);
    t.cc.fetch_add(t0.elapsed().as_millis() as u64, std::sync::atomic::Ordering::Relaxed);
    if let Some(err) = &built.error {
        let lines: Vec<&str> = err.lines().collect();
        let first_error = |mentions: &dyn Fn(&str) -> bool| -> Option<String> {
            for (i, l) in lines.iter().enumerate() {
                if l.contains("error:") && (i.saturating_sub(4)..=i).any(|j| mentions(lines[j])) {
                    return Some(l.to_string());
                }
            }
            None
        };
        if units.len() == 1 {
            let e = first_error(&|_| true).unwrap_or_else(|| lines.first().copied().unwrap_or("").to_string());
            return vec![Raw::CompileError(e)];
        }
        let mut out: Vec<Option<Raw>> = units.iter().map(|_| None).collect();
        let mut bad: Vec<usize> = vec![];
        for (k, u) in units.iter().enumerate() {
            let pats = [format!("{}_le.h", u.ns), format!("{}_be.h", u.ns), format!("drv_{}le::", u.ns), format!("drv_{}be::", u.ns), format!("{}le::", u.ns), format!("{}be::", u.ns)];
            if let Some(e) = first_error(&|l: &str| pats.iter().any(|p| l.contains(p.as_str()))) {
                bad.push(k);
                out[k] = Some(Raw::CompileError(e));
            }
        }
        if bad.is_empty() {
            for (k, u) in units.iter().enumerate() {
                out[k] = run_group_raw(&[*u], &dir.join(format!("u{k}")), hdr, thorough, want_ndebug, t).pop();
            }
        } else {
            let rest_idx: Vec<usize> = (0..units.len()).filter(|k| !bad.contains(k)).collect();
            let rest: Vec<&Unit> = rest_idx.iter().map(|k| units[*k]).collect();
            if !rest.is_empty() {
                for (k, r) in rest_idx.iter().zip(run_group_raw(&rest, &dir.join("rest"), hdr, thorough, want_ndebug, t)) {
                    out[*k] = Some(r);
                }
            }
        }
        return out.into_iter().map(|o| o.unwrap_or_else(|| Raw::CompileError("not compiled".into()))).collect();
    }
    let n_ops: usize = units.iter().map(|u| u.ops.len()).sum();
    let tf = dir.join("task.txt");
    let t1 = std::time::Instant::now();
    let mut unit_ends: Vec<usize> = vec![];
    let mut acc = 0usize;
    for u in units {
        acc += u.ops.len();
        unit_ends.push(acc);
    }
    let (res_a, _) = run_driver(built.asserts.as_ref().unwrap(), &tf, n_ops, &unit_ends);
    let (res_n, quiet_ops) = match &built.ndebug {
        Some(b) => {
            let (r, q) = run_driver(b, &tf, n_ops, &unit_ends);
            (Some(r), q)
        }
        None => (None, 0),
    };
    t.run.fetch_add(t1.elapsed().as_millis() as u64, std::sync::atomic::Ordering::Relaxed);
    let mut out = vec![];
    let mut off = 0usize;
    for (i, u) in units.iter().enumerate() {
        let n = u.ops.len();
        out.push(Raw::Ran { res_a: res_a[off..off + n].to_vec(), res_n: res_n.as_ref().map(|r| r[off..off + n].to_vec()), quiet_ops: if i == 0 { quiet_ops } else { 0 } });
        off += n;
    }
    out
}

fn run_group(units: &[&Unit], dir: &Path, hdr: &Path, thorough: bool, t: &Timers, machinery_errors: &std::sync::atomic::AtomicUsize) -> Vec<Verdicts> {
    run_group_raw(units, dir, hdr, thorough, true, t)
        .into_iter()
        .zip(units)
        .map(|(raw, u)| match raw {
            Raw::CompileError(e) => compile_failure(u, &e),
            Raw::Ran { res_a, res_n, quiet_ops } => evaluate(u, &res_a, res_n.as_deref().unwrap_or(&[]), quiet_ops, machinery_errors),
        })
        .collect()
}

pub fn check(tier: Tier) -> i32 {
    check_on(tier, None)
}

/// `only`: run on exactly these states (single-source / replay mode: no evidence or replay file
/// is written) instead of the explored and selected ones.
pub fn check_on(tier: Tier, only: Option<Vec<Selected>>) -> i32 {
    let mut ev = Evidence::new("C14", tier_name(tier));
    let single = only.is_some();
    let (e, sel) = match only {
        Some(states) => (pdlmc_core::graph::Explored::default(), select::Selection { states, strata: vec![] }),
        None => {
            let e = explore(tier);
            let sel = select::select(&e, tier, Lang::Cxx, &|_, _| true);
            (e, sel)
        }
    };
    let root = PathBuf::from(format!("{VERIF_DIR}/work/cxx_{}", tier_name(tier)));
    let _ = std::fs::remove_dir_all(&root);
    let hdr = root.join("hdr");
    std::fs::create_dir_all(&hdr).expect("mkdir");
    let thorough = tier == Tier::Thorough;
    let limit: usize = std::env::var("PDLMC_LIMIT").ok().and_then(|s| s.parse().ok()).unwrap_or(usize::MAX);
    let stride: usize = std::env::var("PDLMC_CXX_STRIDE").ok().and_then(|s| s.parse().ok()).unwrap_or(if thorough { 64 } else { 4 });
    let group: usize = std::env::var("PDLMC_CXX_GROUP").ok().and_then(|s| s.parse().ok()).unwrap_or(12);
    // the C++ tier is the most expensive per state (two sanitizer builds): quick compiles every
    // `stride`-th selected state (fixed stride through the BFS order, reported)
    let jobs: Vec<&Selected> = sel.states.iter().step_by(if single { 1 } else { stride.max(1) }).take(limit).collect();
    let timers = Timers { cc: std::sync::atomic::AtomicU64::new(0), run: std::sync::atomic::AtomicU64::new(0) };
    let machinery_errors = std::sync::atomic::AtomicUsize::new(0);
    let skipped_unspecified = std::sync::atomic::AtomicUsize::new(0);
    let not_generated = std::sync::atomic::AtomicUsize::new(0);
    let groups: Vec<(usize, &[&Selected])> = jobs.chunks(group.max(1)).enumerate().collect();
    let per_task: Vec<Verdicts> = groups
        .par_iter()
        .flat_map(|(k, sts)| {
            let units: Vec<Unit> = sts
                .iter()
                .filter_map(|st| {
                    let u = prepare(st, &hdr, thorough, &skipped_unspecified, None);
                    if u.is_none() {
                        not_generated.fetch_add(1, std::sync::atomic::Ordering::Relaxed);
                    }
                    u
                })
                .collect();
            let refs: Vec<&Unit> = units.iter().collect();
            if refs.is_empty() {
                return vec![];
            }
            let dir = root.join(format!("g{k}"));
            let out = run_group(&refs, &dir, &hdr, thorough, &timers, &machinery_errors);
            if std::env::var("PDLMC_KEEP").is_err() {
                let _ = std::fs::remove_dir_all(&dir);
            }
            out
        })
        .collect();
    eprintln!("phases (wall ms summed over groups): g++={} drivers={}", timers.cc.load(std::sync::atomic::Ordering::Relaxed), timers.run.load(std::sync::atomic::Ordering::Relaxed));
    let mut rep = Reporter::new("C14");
    rep.dry = single;
    let mut counters: BTreeMap<String, usize> = BTreeMap::new();
    let mut samples = vec![];
    for (r, c, s) in per_task {
        rep.merge(r);
        for (k, v) in c {
            *counters.entry(k).or_default() += v;
        }
        if let Some(s) = s {
            if samples.len() < 3 {
                samples.push(s);
            }
        }
    }
    if std::env::var("PDLMC_KEEP").is_err() {
        let _ = std::fs::remove_dir_all(&root);
    }
    let get = |k: &str| counters.get(k).copied().unwrap_or(0);
    ev.set("states", json!(e.states.len()));
    ev.set("transitions", json!(e.transitions));
    ev.set("eligible_states", json!(sel.states.len()));
    ev.set("compiled_states", json!(jobs.len()));
    ev.set("stride", json!(stride));
    ev.set("states_per_translation_unit", json!(group));
    ev.set("states_whose_header_was_not_generated", json!(not_generated.load(std::sync::atomic::Ordering::Relaxed)));
    ev.set("values_skipped_unspecified_elementsize_of_empty_array", json!(skipped_unspecified.load(std::sync::atomic::Ordering::Relaxed)));
    ev.set("strata", json!(sel.strata.iter().map(|(f, d, n, t)| json!({"family": f, "depth": d, "eligible": n, "selected": t})).collect::<Vec<_>>()));
    ev.set("exhaustive", json!(stride <= 1 && !sel.strata.iter().any(|(_, _, n, t)| t < n)));
    ev.set("traces_validated_against_impl", json!(get("parse-inputs") + get("values")));
    ev.set("outcomes", json!(counters));
    ev.set("samples", json!(samples));
    ev.set("rule", json!("for the well-formed C++-supported states (selection as in the rust engine, every stride-th state in quick) the real C++ backend generates a header per byte order; a driver generated from the IR is compiled against both with g++ -std=c++17 -O1 -fsanitize=address,undefined -fno-sanitize-recover=all, with assertions and with -DNDEBUG. For every packet and struct and every explored value: Builder::Serialize == reference encoding and GetSize() == its length. For every packet of a deterministically parseable tree and every input of the bounded byte-string space (all B-alphabet strings <= 3 (4), all 1-byte strings, every prefix / extension / substitution / field-targeted mutant of the reference encodings of the explored values of the type and its descendants): View::Create(..).IsValid() iff the reference accepts, then every getter equals the reference value; struct Parse is compared with the reference prefix decoder (value and consumed length). In the assert build getters are called on valid views only (documented precondition), in the NDEBUG build on every view. Any death of the driver (sanitizer report, assertion, exception, 120 s timeout) is attributed to the announced operation."));
    ev.assumptions = vec![
        "trusted: the reference model; the driver emitter (mc/front/src/cxxgen.rs) follows the constructor-parameter order of scripts/generate_cxx_backend_tests.py; it is compiled against the generated header, so an API mismatch is a compile error, never a silent pass".into(),
        "unsigned wrap-around is not UB and is not flagged by UBSan; it is caught only where it changes validity, values or memory accesses".into(),
    ];
    let code = rep.finish(&mut ev);
    let distinct = counters.iter().filter(|(k, v)| k.starts_with("outcome:") && **v > 0).count();
    ev.set("distinct_outcome_classes", json!(distinct));
    ev.set("machinery_errors", json!(machinery_errors.load(std::sync::atomic::Ordering::Relaxed)));
    if single {
        return code;
    }
    ev.write(&format!("{VERIF_DIR}/evidence"));
    if distinct < 2 {
        eprintln!("machinery error: exploration produced {distinct} outcome class(es)");
        return 2;
    }
    if machinery_errors.load(std::sync::atomic::Ordering::Relaxed) > 0 {
        eprintln!("machinery error: {} operations could not be executed by the driver", machinery_errors.load(std::sync::atomic::Ordering::Relaxed));
        return 2;
    }
    println!("C14 {}: eligible={} compiled={} parse_inputs={} ndebug_parse_inputs={} values={} violations={} known={} wall={:.1}s", tier_name(tier), sel.states.len(), get("states-compiled"), get("parse-inputs"), get("ndebug-parse-inputs"), get("values"), ev.violations, ev.known, ev.start.elapsed().as_secs_f64());
    code
}
