//! C07: the four backends are compared *with each other*. The Rust harness (mode "C07") is the
//! single source of the operation list: for every state in the intersection of the backends'
//! supported constructs and every packet / struct it enumerates the values and byte strings,
//! runs the generated Rust code and reports raw observations. Exactly these values and inputs
//! (which include the encodings the Rust serializer produced) are then handed to the Python, C++
//! and Java drivers. The deciding comparison is between the four observations; the reference
//! model is consulted only to say which side it agrees with (signatures / explanations).

use crate::cxxgen::{self, OpIn, OpOut};
use crate::drive::{self, Backend, Outcome};
use crate::front::tier_name;
use crate::javagen;
use crate::pygen::py_expr;
use crate::rustgen;
use pdlmc_core::classes;
use pdlmc_core::evidence::Evidence;
use pdlmc_core::graph::Tier;
use pdlmc_core::ir::*;
use pdlmc_core::model::{self, Model, Val};
use pdlmc_core::render;
use pdlmc_core::report::{Reporter, Violation, VERIF_DIR};
use pdlmc_core::rules;
use pdlmc_core::select::Selected;
use pdlmc_core::support::{unsupported, Lang};
use rayon::prelude::*;
use serde_json::{json, Value as J};
use std::collections::BTreeMap;
use std::path::{Path, PathBuf};
use std::process::Command;
use std::sync::atomic::{AtomicU64, AtomicUsize, Ordering};

/// What one backend did with one value / input.
#[derive(Debug, Clone, PartialEq)]
pub enum Ser {
    Bytes(Vec<u8>),
    Error(String),
    /// the backend has no such operation for this type (e.g. no concrete Java class)
    Absent,
}

#[derive(Debug, Clone, PartialEq)]
pub enum Par {
    Reject(String),
    /// accepted at the level of the type itself: field values (and payload)
    Accept(J),
    /// accepted, but the backend specialised further down (Python / Java return a descendant):
    /// acceptance is comparable, values are not
    AcceptDeeper(String),
    Died(String),
    Absent,
}

/// Operations of one (state, byte order) as reported by the Rust harness.
pub struct TypeOps {
    pub name: String,
    pub is_struct: bool,
    pub values: Vec<Val>,
    pub inputs: Vec<Vec<u8>>,
    pub rust_enc: Vec<Ser>,
    pub rust_dec: Vec<Par>,
}

pub struct StateOps {
    pub le: Vec<TypeOps>,
    pub be: Vec<TypeOps>,
}

fn parse_rust_observation(types: &J, inl: &Desc) -> Vec<TypeOps> {
    let mut out = vec![];
    for t in types.as_array().cloned().unwrap_or_default() {
        let name = t["name"].as_str().unwrap_or("").to_string();
        let is_struct = inl.get(&name).map(|d| d.is_struct()).unwrap_or(false);
        let values: Vec<Val> = serde_json::from_value(t["values"].clone()).unwrap_or_default();
        let inputs: Vec<Vec<u8>> = t["inputs"].as_array().map(|a| a.iter().map(|h| model::unhex(h.as_str().unwrap_or(""))).collect()).unwrap_or_default();
        let rust_enc: Vec<Ser> = t["enc"]
            .as_array()
            .map(|a| {
                a.iter()
                    .map(|x| {
                        let s = x.as_str().unwrap_or("");
                        if s.starts_with("err:") || s.starts_with("panic:") || s.starts_with("not-constructible:") {
                            Ser::Error(s.to_string())
                        } else {
                            Ser::Bytes(model::unhex(s))
                        }
                    })
                    .collect()
            })
            .unwrap_or_default();
        let rust_dec: Vec<Par> = t["dec"]
            .as_array()
            .map(|a| {
                a.iter()
                    .zip(inputs.iter())
                    .map(|(x, b)| match x {
                        J::String(s) if s.starts_with("panic:") => Par::Died(s.clone()),
                        J::String(s) => Par::Reject(s.clone()),
                        J::Object(o) => {
                            // structs are decoded as a prefix: "accepted" means consumed entirely
                            match o.get("n").and_then(|n| n.as_u64()) {
                                Some(n) if n as usize != b.len() => Par::Reject("trailing-bytes".into()),
                                _ => Par::Accept(o.get("v").cloned().unwrap_or(J::Null)),
                            }
                        }
                        _ => Par::Absent,
                    })
                    .collect()
            })
            .unwrap_or_default();
        out.push(TypeOps { name, is_struct, values, inputs, rust_enc, rust_dec });
    }
    out
}

fn ext_list(ops: &[TypeOps]) -> Vec<(String, OpIn)> {
    let mut v = vec![];
    for t in ops {
        for x in &t.values {
            v.push((t.name.clone(), OpIn::Build(x.clone())));
        }
        for b in &t.inputs {
            v.push((t.name.clone(), OpIn::Parse(b.clone())));
        }
    }
    v
}

// ------------------------------------------------------------------ python leg

fn python_leg(st: &Selected, ops: &StateOps, root: &Path, python: &str) -> BTreeMap<(bool, String), (Vec<Ser>, Vec<Par>)> {
    let mut out = BTreeMap::new();
    for (big, tops) in [(false, &ops.le), (true, &ops.be)] {
        let d = st.desc.with_endian(if big { Endian::Big } else { Endian::Little });
        let inl = match rules::inline_groups(&d) {
            Some(i) => i,
            None => continue,
        };
        let m = Model::new(&inl);
        let text = render::canonical(&d);
        let run = drive::run_text_named(&text, "t.pdl");
        let code = match &run.outcome {
            Outcome::Accepted => drive::generate(Backend::Python, &run, None),
            o => Err(format!("not accepted: {o:?}")),
        };
        let id = format!("m{}_{}", st.id, if big { "be" } else { "le" });
        let absent = |out: &mut BTreeMap<(bool, String), (Vec<Ser>, Vec<Par>)>, why: &str| {
            for t in tops {
                out.insert((big, t.name.clone()), (t.values.iter().map(|_| Ser::Error(why.to_string())).collect(), t.inputs.iter().map(|_| Par::Died(why.to_string())).collect()));
            }
        };
        let code = match code {
            Ok(c) => c,
            Err(_) => {
                absent(&mut out, "python-module-not-generated");
                continue;
            }
        };
        let mf = root.join(format!("{id}.py"));
        std::fs::write(&mf, code).expect("write module");
        // parse ops go through the root's parse_all (the Python backend specialises from there)
        let task = json!([{
            "module": mf,
            "id": id,
            "parse": tops.iter().map(|t| {
                let r = inl.ancestry(&t.name).last().map(|x| x.id.clone()).unwrap_or_else(|| t.name.clone());
                json!({"type": r, "inputs": t.inputs.iter().map(|b| model::hex(b)).collect::<Vec<_>>()})
            }).collect::<Vec<_>>(),
            "build": tops.iter().map(|t| json!({"type": t.name, "exprs": t.values.iter().map(|v| py_expr(&m, &t.name, v)).collect::<Vec<_>>()})).collect::<Vec<_>>(),
        }]);
        let tf = root.join(format!("{id}.task.json"));
        let rf = root.join(format!("{id}.result.jsonl"));
        std::fs::write(&tf, serde_json::to_string(&task).unwrap()).expect("write task");
        let _ = Command::new("timeout").arg("3600").arg(python).arg(format!("{VERIF_DIR}/drivers/pydrv.py")).arg(&tf).arg(&rf).env("PYTHONDONTWRITEBYTECODE", "1").status();
        let result: Option<J> = std::fs::read_to_string(&rf).ok().and_then(|s| s.lines().next().and_then(|l| serde_json::from_str(l).ok()));
        if std::env::var("PDLMC_KEEP").is_err() {
            let _ = std::fs::remove_file(&tf);
            let _ = std::fs::remove_file(&rf);
            let _ = std::fs::remove_file(&mf);
        }
        let r = match result {
            Some(r) if r.get("load_error").is_none() && r.get("driver_error").is_none() => r,
            Some(r) => {
                absent(&mut out, &format!("python-module-does-not-load:{}", r.get("load_error").or(r.get("driver_error")).and_then(|x| x.as_str()).unwrap_or("").split(':').next().unwrap_or("")));
                continue;
            }
            None => {
                absent(&mut out, "python-driver-died");
                continue;
            }
        };
        for (k, t) in tops.iter().enumerate() {
            let sers: Vec<Ser> = r["build"][k]["results"]
                .as_array()
                .map(|a| {
                    a.iter()
                        .map(|got| match got[0].as_str().unwrap_or("") {
                            "ok" => Ser::Bytes(model::unhex(got[1].as_str().unwrap_or(""))),
                            kind => Ser::Error(format!("{kind}:{}", got[1].as_str().unwrap_or(""))),
                        })
                        .collect()
                })
                .unwrap_or_default();
            let pars: Vec<Par> = r["parse"][k]["results"]
                .as_array()
                .map(|a| {
                    a.iter()
                        .map(|got| match got[0].as_str().unwrap_or("") {
                            "ok" => {
                                let cls = got[1].as_str().unwrap_or("");
                                if cls == t.name {
                                    Par::Accept(got[2].clone())
                                } else if inl.ancestry(cls).iter().any(|a| a.id == t.name) {
                                    Par::AcceptDeeper(cls.to_string())
                                } else if alias_path(&inl, cls, &t.name) {
                                    // alias children (no fields of their own) are transparent in
                                    // the Python backend by documented design: the object of the
                                    // nearest non-alias ancestor is returned; not comparable
                                    Par::Absent
                                } else {
                                    // the bytes were read as another branch of the tree
                                    Par::Reject(format!("parsed-as:{cls}"))
                                }
                            }
                            "timeout" => Par::Died("timeout".into()),
                            _ => {
                                if got[2].as_bool() == Some(true) {
                                    Par::Reject(got[1].as_str().unwrap_or("").to_string())
                                } else {
                                    Par::Died(format!("non-DecodeError:{}", got[1].as_str().unwrap_or("")))
                                }
                            }
                        })
                        .collect()
                })
                .unwrap_or_default();
            out.insert((big, t.name.clone()), (sers, pars));
        }
    }
    out
}

/// `to` is a descendant of `from` and every declaration below `from` on the way down to `to`
/// declares nothing but (at most) a payload
fn alias_path(d: &Desc, from: &str, to: &str) -> bool {
    let chain = d.ancestry(to);
    match chain.iter().position(|a| a.id == from) {
        Some(k) if k > 0 => chain[..k].iter().all(|a| a.fields().iter().all(|f| f.is_payload())),
        _ => false,
    }
}

// ------------------------------------------------------------------ shared helpers

fn split_ops<T: Clone>(tops: &[TypeOps], res: &[T], kinds: &[(String, bool)]) -> BTreeMap<String, (Vec<T>, Vec<T>)> {
    // `kinds` is the (type, is_build) list in the order the operations were issued
    let mut m: BTreeMap<String, (Vec<T>, Vec<T>)> = BTreeMap::new();
    for t in tops {
        m.insert(t.name.clone(), (vec![], vec![]));
    }
    for ((ty, is_build), r) in kinds.iter().zip(res.iter()) {
        if let Some(e) = m.get_mut(ty) {
            if *is_build {
                e.0.push(r.clone())
            } else {
                e.1.push(r.clone())
            }
        }
    }
    m
}

fn cxx_obs(line: &OpOut, is_build: bool, is_struct: bool, input_len: usize) -> (Option<Ser>, Option<Par>) {
    match line {
        OpOut::NotRun => (Some(Ser::Absent), Some(Par::Absent)),
        OpOut::Died(how) => (Some(Ser::Error(format!("died:{how}"))), Some(Par::Died(how.clone()))),
        OpOut::Line(l) => {
            if is_build {
                let mut it = l.split(' ');
                let (_ok, hex) = (it.next(), it.next().unwrap_or(""));
                (Some(Ser::Bytes(if hex == "-" { vec![] } else { model::unhex(hex) })), None)
            } else if !l.starts_with('1') {
                (None, Some(Par::Reject("invalid".into())))
            } else {
                let rest = l[1..].trim_start();
                if is_struct {
                    let mut it = rest.splitn(2, ' ');
                    let n = it.next().and_then(|s| s.parse::<usize>().ok());
                    let js = it.next().unwrap_or("");
                    if n != Some(input_len) {
                        (None, Some(Par::Reject("trailing-bytes".into())))
                    } else {
                        (None, Some(Par::Accept(serde_json::from_str(js).unwrap_or(J::Null))))
                    }
                } else {
                    (None, Some(Par::Accept(serde_json::from_str(rest).unwrap_or(J::Null))))
                }
            }
        }
    }
}

fn java_obs(line: &OpOut, is_build: bool, ty: &str, inl: &Desc) -> (Option<Ser>, Option<Par>) {
    match line {
        OpOut::NotRun => (Some(Ser::Absent), Some(Par::Absent)),
        OpOut::Died(how) => (Some(Ser::Error(format!("died:{how}"))), Some(Par::Died(how.clone()))),
        OpOut::Line(l) => {
            if l.starts_with("driver-error") {
                return (Some(Ser::Absent), Some(Par::Absent));
            }
            if is_build {
                let mut it = l.splitn(3, ' ');
                match it.next() {
                    Some("ok") => {
                        let hex = it.next().unwrap_or("");
                        (Some(Ser::Bytes(if hex == "-" { vec![] } else { model::unhex(hex) })), None)
                    }
                    _ => (Some(Ser::Error(l.chars().take(60).collect())), None),
                }
            } else {
                let mut it = l.splitn(4, ' ');
                match it.next() {
                    Some("ok") => {
                        let cls = it.next().unwrap_or("");
                        let js = it.next().unwrap_or("null");
                        let v: J = serde_json::from_str(js).unwrap_or(J::Null);
                        if cls == ty || cls == format!("Unknown{ty}") {
                            (None, Some(Par::Accept(v)))
                        } else {
                            let cty = cls.strip_prefix("Unknown").unwrap_or(cls);
                            if inl.ancestry(cty).iter().any(|a| a.id == ty) {
                                (None, Some(Par::AcceptDeeper(cls.to_string())))
                            } else {
                                (None, Some(Par::Reject(format!("parsed-as:{cls}"))))
                            }
                        }
                    }
                    _ => (None, Some(Par::Reject(l.split(' ').nth(1).unwrap_or("").to_string()))),
                }
            }
        }
    }
}

/// compare two accepted values on the keys both carry (backends expose different subsets:
/// Python omits an empty payload, Java has no getters for constrained fields, ...)
fn values_agree(a: &J, b: &J) -> bool {
    match (a, b) {
        (J::Object(x), J::Object(y)) => x.iter().all(|(k, v)| match y.get(k) {
            Some(w) => values_agree(v, w),
            None => true,
        }),
        (J::Array(x), J::Array(y)) => x.len() == y.len() && x.iter().zip(y).all(|(v, w)| values_agree(v, w)),
        (J::Null, J::Null) => true,
        (J::Number(x), J::Number(y)) => x.as_u64() == y.as_u64(),
        // bytes may come as arrays of numbers on both sides; anything else must be equal
        (x, y) => x == y,
    }
}


pub type Leg = BTreeMap<(usize, bool, String), (Vec<Ser>, Vec<Par>)>;

/// Which of the out-of-process backends take part in a run of `legs`.
#[derive(Clone, Copy)]
pub struct Which {
    pub python: bool,
    pub cxx: bool,
    pub java: bool,
}

pub struct Legs {
    pub py: Leg,
    pub cx: Leg,
    pub jv: Leg,
    /// (state, backend, first error line)
    pub compile_errors: Vec<(usize, String, String)>,
    pub gxx_ms: u64,
    pub javac_ms: u64,
}

/// Hand the operations in `ops_by_state` to the Python, C++ and Java drivers (those selected by
/// `which(state)`) and collect their raw observations.
pub fn legs(label: &str, tier: Tier, states: &[&Selected], ops_by_state: &BTreeMap<usize, StateOps>, which: &(dyn Fn(&Selected) -> Which + Sync)) -> Result<Legs, String> {
    let thorough = tier == Tier::Thorough;
    let root = PathBuf::from(format!("{VERIF_DIR}/work/{label}_{}", tier_name(tier)));
    let _ = std::fs::remove_dir_all(&root);
    let (pyroot, hdr, jsrc, jdrv) = (root.join("py"), root.join("cxx/hdr"), root.join("java/src"), root.join("java/drv"));
    for d in [&pyroot, &hdr, &jsrc, &jdrv] {
        std::fs::create_dir_all(d).expect("mkdir");
    }
    javagen::build_driver(&jdrv)?;
    let python: String = Command::new("python3").args(["-c", "import sys; print(sys.executable)"]).output().ok().map(|o| String::from_utf8_lossy(&o.stdout).trim().to_string()).filter(|s| !s.is_empty()).unwrap_or_else(|| "python3".to_string());
    let group = 12usize;
    let ctimers = cxxgen::Timers { cc: AtomicU64::new(0), run: AtomicU64::new(0) };
    let jtimers = javagen::Timers { cc: AtomicU64::new(0), run: AtomicU64::new(0) };
    let skipped = AtomicUsize::new(0);
    let groups: Vec<(usize, &[&Selected])> = states.chunks(group).enumerate().collect();
    let legs: Vec<(Leg, Leg, Leg, Vec<(usize, String, String)>)> = groups
        .par_iter()
        .map(|(k, sts)| {
            let mut py: Leg = BTreeMap::new();
            let mut cx: Leg = BTreeMap::new();
            let mut jv: Leg = BTreeMap::new();
            let mut compile_errors: Vec<(usize, String, String)> = vec![];
            // python: one module per state and byte order
            for st in sts.iter().filter(|s| which(s).python) {
                for ((big, ty), v) in python_leg(st, &ops_by_state[&st.id], &pyroot, &python) {
                    py.insert((st.id, big, ty), v);
                }
            }
            // c++
            let cunits: Vec<cxxgen::Unit> = sts
                .iter()
                .filter(|s| which(s).cxx)
                .filter_map(|st| {
                    let so = &ops_by_state[&st.id];
                    cxxgen::prepare(st, &hdr, thorough, &skipped, Some(&cxxgen::ExtOps { le: ext_list(&so.le), be: ext_list(&so.be) }))
                })
                .collect();
            let crefs: Vec<&cxxgen::Unit> = cunits.iter().collect();
            if !crefs.is_empty() {
                let raws = cxxgen::run_group_raw(&crefs, &root.join(format!("cxx/g{k}")), &hdr, thorough, false, &ctimers);
                for (u, raw) in cunits.iter().zip(raws) {
                    let so = &ops_by_state[&u.st.id];
                    match raw {
                        cxxgen::Raw::CompileError(e) => compile_errors.push((u.st.id, "cxx".into(), e)),
                        cxxgen::Raw::Ran { res_a, .. } => {
                            for (big, tops) in [(false, &so.le), (true, &so.be)] {
                                let kinds: Vec<(String, bool)> = u.ops.iter().filter(|o| o.big == big).map(|o| (o.ty.clone(), matches!(o.input, OpIn::Build(_)))).collect();
                                let res: Vec<OpOut> = u.ops.iter().zip(res_a.iter()).filter(|(o, _)| o.big == big).map(|(_, r)| r.clone()).collect();
                                for (ty, (b, p)) in split_ops(tops, &res, &kinds) {
                                    let t = tops.iter().find(|t| t.name == ty).unwrap();
                                    let sers: Vec<Ser> = b.iter().map(|l| cxx_obs(l, true, t.is_struct, 0).0.unwrap_or(Ser::Absent)).collect();
                                    let pars: Vec<Par> = p.iter().zip(t.inputs.iter()).map(|(l, inp)| cxx_obs(l, false, t.is_struct, inp.len()).1.unwrap_or(Par::Absent)).collect();
                                    cx.insert((u.st.id, big, ty), (sers, pars));
                                }
                            }
                        }
                    }
                }
            }
            // java
            let junits: Vec<javagen::Unit> = sts
                .iter()
                .filter(|s| which(s).java)
                .filter_map(|st| {
                    let so = &ops_by_state[&st.id];
                    javagen::prepare(st, &jsrc, thorough, Some(&javagen::ExtOps { le: ext_list(&so.le), be: ext_list(&so.be) }))
                })
                .collect();
            let jrefs: Vec<&javagen::Unit> = junits.iter().collect();
            if !jrefs.is_empty() {
                let raws = javagen::run_group_raw(&jrefs, &root.join(format!("java/g{k}")), &jsrc, &jdrv, &jtimers);
                for (u, raw) in junits.iter().zip(raws) {
                    let so = &ops_by_state[&u.st.id];
                    match raw {
                        javagen::Raw::CompileError(e) => compile_errors.push((u.st.id, "java".into(), e)),
                        javagen::Raw::Ran(res) => {
                            for (big, tops) in [(false, &so.le), (true, &so.be)] {
                                let d = u.st.desc.with_endian(if big { Endian::Big } else { Endian::Little });
                                let inl = match rules::inline_groups(&d) {
                                    Some(i) => i,
                                    None => continue,
                                };
                                // java issues only the operations its classes offer: align by (type, kind, ordinal)
                                for t in tops {
                                    let mut sers: Vec<Ser> = vec![];
                                    let mut pars: Vec<Par> = vec![];
                                    let mine: Vec<(&javagen::JOp, &OpOut)> = u.ops.iter().zip(res.iter()).filter(|(o, _)| o.big == big && o.ty == t.name).collect();
                                    let builds: Vec<&OpOut> = mine.iter().filter(|(o, _)| matches!(o.input, OpIn::Build(_))).map(|(_, r)| *r).collect();
                                    let parses: Vec<&OpOut> = mine.iter().filter(|(o, _)| matches!(o.input, OpIn::Parse(_))).map(|(_, r)| *r).collect();
                                    for i in 0..t.values.len() {
                                        sers.push(match builds.get(i) {
                                            Some(l) if builds.len() == t.values.len() => java_obs(l, true, &t.name, &inl).0.unwrap_or(Ser::Absent),
                                            _ => Ser::Absent,
                                        });
                                    }
                                    for i in 0..t.inputs.len() {
                                        pars.push(match parses.get(i) {
                                            Some(l) if parses.len() == t.inputs.len() => java_obs(l, false, &t.name, &inl).1.unwrap_or(Par::Absent),
                                            _ => Par::Absent,
                                        });
                                    }
                                    jv.insert((u.st.id, big, t.name.clone()), (sers, pars));
                                }
                            }
                        }
                    }
                }
            }
            if std::env::var("PDLMC_KEEP").is_err() {
                let _ = std::fs::remove_dir_all(root.join(format!("cxx/g{k}")));
                let _ = std::fs::remove_dir_all(root.join(format!("java/g{k}")));
            }
            (py, cx, jv, compile_errors)
        })
        .collect();
    let mut out = Legs { py: BTreeMap::new(), cx: BTreeMap::new(), jv: BTreeMap::new(), compile_errors: vec![], gxx_ms: ctimers.cc.load(Ordering::Relaxed), javac_ms: jtimers.cc.load(Ordering::Relaxed) };
    for (a, b, c, e) in legs {
        out.py.extend(a);
        out.cx.extend(b);
        out.jv.extend(c);
        out.compile_errors.extend(e);
    }
    if std::env::var("PDLMC_KEEP").is_err() {
        let _ = std::fs::remove_dir_all(&root);
    }
    Ok(out)
}

const BACKENDS: [&str; 4] = ["rust", "python", "cxx", "java"];

pub fn check(tier: Tier) -> i32 {
    let mut ev = Evidence::new("C07", tier_name(tier));
    let thorough = tier == Tier::Thorough;
    // 1. the Rust harness (built from /repo's current tree; cached by content)
    let mut h = rustgen::prepare(tier);
    if !rustgen::build(&mut h) {
        eprintln!("machinery: the Rust harness does not build");
        return 2;
    }
    let excluded: std::collections::BTreeSet<usize> = h.excluded.iter().map(|x| x.0).collect();
    // 2. the intersection of the four supported sets
    let mut eligible: Vec<&Selected> = vec![];
    for st in &h.states {
        if excluded.contains(&st.id) {
            continue;
        }
        let inl = match rules::inline_groups(&st.desc) {
            Some(i) => i,
            None => continue,
        };
        // (structs that reach themselves through an array are compiled by the Rust backend only:
        // KF-06 Java, KF-30 Python, KF-38 C++ — not in the intersection)
        if [Lang::Python, Lang::Cxx, Lang::Java].iter().all(|l| unsupported(*l, &inl).is_none()) && !cxxgen::has_struct_cycle(&inl) {
            eligible.push(st);
        }
    }
    let stride: usize = std::env::var("PDLMC_C07_STRIDE").ok().and_then(|s| s.parse().ok()).unwrap_or(if thorough { 40 } else { 5 });
    let limit: usize = std::env::var("PDLMC_LIMIT").ok().and_then(|s| s.parse().ok()).unwrap_or(usize::MAX);
    let chosen: Vec<&Selected> = eligible.iter().copied().step_by(stride.max(1)).take(limit).collect();
    eprintln!("C07: {} rust states, {} in the intersection, {} chosen ({:.1}s)", h.states.len(), eligible.len(), chosen.len(), ev.start.elapsed().as_secs_f64());
    // 3. Rust observations (the harness also fixes the operation list)
    let mut by_shard: BTreeMap<usize, Vec<usize>> = BTreeMap::new();
    for st in &chosen {
        by_shard.entry(st.id % h.shards).or_default().push(st.id);
    }
    let tasks: Vec<(usize, usize, Vec<usize>)> = by_shard.iter().flat_map(|(sh, ids)| ids.chunks(8).enumerate().map(|(k, c)| (*sh, k, c.to_vec())).collect::<Vec<_>>()).collect();
    let machinery: AtomicUsize = AtomicUsize::new(0);
    // each task's observation document is digested at once (and the raw JSON dropped): a type
    // keeps at most `keep` inputs (all in quick; the thorough harness enumerates 12 000 per type,
    // of which the first 3 000 — own encodings first, then the enumeration order — are compared)
    let keep: usize = if thorough { 3000 } else { usize::MAX };
    enum Digest {
        Ops(usize, bool, Vec<TypeOps>),
        Died(usize, String),
    }
    let digest = |o: &J| -> Option<Digest> {
        let id = o["state"].as_u64().unwrap_or(0) as usize;
        if let Some(d) = o.get("died") {
            return Some(Digest::Died(id, d.as_str().unwrap_or("").to_string()));
        }
        let st = &h.states[id];
        let big = o["big"].as_bool().unwrap_or(false);
        let inl = rules::inline_groups(&st.desc)?;
        let mut tops = parse_rust_observation(&o["types"], &inl);
        for t in tops.iter_mut() {
            if t.inputs.len() > keep {
                t.inputs.truncate(keep);
                t.rust_dec.truncate(keep);
            }
        }
        Some(Digest::Ops(id, big, tops))
    };
    let digests: Vec<Digest> = tasks
        .par_iter()
        .flat_map(|(shard, k, ids)| match rustgen::run_task_checked(&h, *shard, 1000 + *k, "C07", tier, ids) {
            rustgen::TaskResult::Done(v) => v["observations"].as_array().map(|a| a.iter().filter_map(|o| digest(o)).collect::<Vec<_>>()).unwrap_or_default(),
            _ => {
                // isolate state by state; a death is recorded as such
                let mut out = vec![];
                for id in ids {
                    match rustgen::run_task_checked(&h, *shard, 1000 + *k, "C07", tier, &[*id]) {
                        rustgen::TaskResult::Done(v) => out.extend(v["observations"].as_array().map(|a| a.iter().filter_map(|o| digest(o)).collect::<Vec<_>>()).unwrap_or_default()),
                        rustgen::TaskResult::Died { how, .. } => out.push(Digest::Died(*id, how)),
                        rustgen::TaskResult::Machinery(m) => {
                            eprintln!("machinery: {m}");
                            machinery.fetch_add(1, Ordering::Relaxed);
                        }
                    }
                }
                out
            }
        })
        .collect();
    eprintln!("C07: rust observations collected ({:.1}s)", ev.start.elapsed().as_secs_f64());
    let mut ops_by_state: BTreeMap<usize, StateOps> = BTreeMap::new();
    let mut rust_deaths: Vec<(usize, String)> = vec![];
    for d in digests {
        match d {
            Digest::Died(id, how) => rust_deaths.push((id, how)),
            Digest::Ops(id, big, tops) => {
                let e = ops_by_state.entry(id).or_insert_with(|| StateOps { le: vec![], be: vec![] });
                if big {
                    e.be = tops
                } else {
                    e.le = tops
                }
            }
        }
    }
    // 4. the other three legs
    let states: Vec<&Selected> = chosen.iter().copied().filter(|s| ops_by_state.contains_key(&s.id)).collect();
    let l = match legs("c07", tier, &states, &ops_by_state, &|_| Which { python: true, cxx: true, java: true }) {
        Ok(l) => l,
        Err(e) => {
            eprintln!("machinery: {e}");
            return 2;
        }
    };
    eprintln!("C07: python / c++ / java legs done ({:.1}s); g++={}ms javac={}ms", ev.start.elapsed().as_secs_f64(), l.gxx_ms, l.javac_ms);
    let (py, cx, jv, compile_errors) = (l.py, l.cx, l.jv, l.compile_errors);
    // 5. compare
    let mut rep = Reporter::new("C07");
    rep.max_replays = 120;
    let mut counters: BTreeMap<String, usize> = BTreeMap::new();
    let mut samples: Vec<J> = vec![];
    let mut inc = |k: &str, n: usize| *counters.entry(k.to_string()).or_default() += n;
    for (id, how) in &rust_deaths {
        let st = &h.states[*id];
        rep.report(Violation { property: "C07".into(), sig: format!("rust-harness-died how={}", how.chars().map(|c| if c.is_ascii_digit() { '#' } else { c }).take(60).collect::<String>()), detail: json!({"state": id, "source": render::canonical(&st.desc), "how": how}) });
    }
    for (id, lang, e) in &compile_errors {
        // a state of the intersection whose generated code does not compile is a disagreement
        // by itself; the signature is the one of the backend's own check
        let st = &h.states[*id];
        let msg: String = e.split("error:").nth(1).unwrap_or(e).chars().map(|ch| if ch.is_ascii_digit() { '#' } else { ch }).take(80).collect();
        rep.report(Violation { property: "C07".into(), sig: format!("generated-{lang}-does-not-compile error={}", msg.trim()), detail: json!({"state": id, "source": render::canonical(&st.desc), "error": e}) });
    }
    for st in &states {
        let so = &ops_by_state[&st.id];
        inc("states-compared", 1);
        for (big, tops) in [(false, &so.le), (true, &so.be)] {
            let d = st.desc.with_endian(if big { Endian::Big } else { Endian::Little });
            let inl = match rules::inline_groups(&d) {
                Some(i) => i,
                None => continue,
            };
            let m = Model::new(&inl);
            let text = render::canonical(&d);
            for t in tops {
                let key = (st.id, big, t.name.clone());
                let empty: (Vec<Ser>, Vec<Par>) = (vec![], vec![]);
                let (p, c, j) = (py.get(&key).unwrap_or(&empty), cx.get(&key).unwrap_or(&empty), jv.get(&key).unwrap_or(&empty));
                let mut markers: Vec<&str> = classes::construct_classes(&inl, &t.name).into_iter().filter(|c| ["padded-array", "payload-with-modifier", "enum-elements", "struct-elements", "static-array", "child", "body", "sized-array", "counted-array", "unsized-array"].contains(c)).collect();
                markers.extend(javagen::java_markers(&inl, &t.name));
                markers.extend(cxxgen::cxx_markers(&inl, &t.name));
                if javagen::never_selected_child(&inl, &t.name) {
                    markers.push("child-without-constraints-or-constant-size");
                }
                if inl.decls.iter().any(|d| matches!(&d.kind, DeclKind::Enum { tags, .. } if !tags.iter().any(|t| matches!(t, Tag::Value { .. })))) {
                    markers.push("range-only-enum");
                }
                markers.sort();
                markers.dedup();
                let has_children = inl.children(&t.name).next().is_some();
                let base = || json!({"state": st.id, "family": st.family, "endianness": if big {"big"} else {"little"}, "type": t.name, "source": text});
                // serializers
                for (i, v) in t.values.iter().enumerate() {
                    let obs: [Ser; 4] = [t.rust_enc.get(i).cloned().unwrap_or(Ser::Absent), p.0.get(i).cloned().unwrap_or(Ser::Absent), c.0.get(i).cloned().unwrap_or(Ser::Absent), j.0.get(i).cloned().unwrap_or(Ser::Absent)];
                    let present: Vec<usize> = (0..4).filter(|k| obs[*k] != Ser::Absent).collect();
                    inc("values-compared", 1);
                    inc(&format!("serializers-present:{}", present.len()), 1);
                    if present.len() < 2 {
                        continue;
                    }
                    let all_same = present.windows(2).all(|w| obs[w[0]] == obs[w[1]]) && matches!(obs[present[0]], Ser::Bytes(_));
                    if all_same {
                        inc("outcome:serializers-agree", 1);
                        continue;
                    }
                    inc("outcome:serializers-disagree", 1);
                    // explanation: which of them agree with the reference encoding
                    let want = m.encode(&t.name, v).ok().map(|e| e.bytes);
                    let mut with_ref = vec![];
                    let mut against = vec![];
                    for k in &present {
                        match (&obs[*k], &want) {
                            (Ser::Bytes(b), Some(w)) if b == w => with_ref.push(BACKENDS[*k]),
                            (Ser::Bytes(_), _) => against.push(format!("{}:other-bytes", BACKENDS[*k])),
                            (Ser::Error(e), _) => against.push(format!("{}:{}", BACKENDS[*k], e.split(':').take(2).collect::<Vec<_>>().join(":"))),
                            _ => {}
                        }
                    }
                    rep.report(Violation {
                        property: "C07".into(),
                        sig: format!("serializers-disagree deviating={against:?} agreeing-with-reference={with_ref:?} kind={} markers={markers:?}", if t.is_struct { "struct" } else { "packet" }),
                        detail: json!({"state": base(), "value": v.to_json(), "rust": format!("{:?}", obs[0]), "python": format!("{:?}", obs[1]), "cxx": format!("{:?}", obs[2]), "java": format!("{:?}", obs[3]), "reference": want.map(|w| model::hex(&w))}),
                    });
                }
                // parsers
                // parsers are compared on deterministically parseable types only (the class the
                // other engines use: e.g. an unsized array of dynamically sized elements that is
                // followed by further fields has no agreed reading: Java reserves the trailing
                // octets, Rust / Python / C++ parse elements greedily and fail)
                let root_ty = inl.ancestry(&t.name).last().map(|d| d.id.clone()).unwrap_or_else(|| t.name.clone());
                if classes::deterministic(&inl, &t.name).is_err() || classes::deterministic(&inl, &root_ty).is_err() {
                    inc("types-skipped-not-deterministically-parseable", 1);
                    continue;
                }
                // siblings (at any level of the path from the root) of a child type
                let mut rivals: Vec<String> = vec![];
                {
                    let chain = inl.ancestry(&t.name);
                    for w in chain.windows(2) {
                        for sib in inl.children(&w[1].id) {
                            if sib.id != w[0].id {
                                rivals.push(sib.id.clone());
                            }
                        }
                    }
                }
                for (i, b) in t.inputs.iter().enumerate() {
                    // an input that a sibling branch accepts as well has no single reading
                    if !rivals.is_empty() && rivals.iter().any(|r| m.decode_full(r, b).is_ok()) && m.decode_full(&t.name, b).is_ok() {
                        inc("inputs-skipped-two-branches-fit", 1);
                        continue;
                    }
                    let obs: [Par; 4] = [t.rust_dec.get(i).cloned().unwrap_or(Par::Absent), p.1.get(i).cloned().unwrap_or(Par::Absent), c.1.get(i).cloned().unwrap_or(Par::Absent), j.1.get(i).cloned().unwrap_or(Par::Absent)];
                    inc("inputs-compared", 1);
                    // for a type with children Python and Java specialise (they parse the child's
                    // fields too), Rust and C++ stop at the type itself: acceptance is compared
                    // inside each pair only; values whenever both sides stay at the type's level
                    let pairs: Vec<(usize, usize)> = if has_children { vec![(0, 2), (1, 3)] } else { vec![(0, 1), (0, 2), (0, 3), (1, 2), (1, 3), (2, 3)] };
                    let mut acc_dis: Vec<String> = vec![];
                    let mut val_dis: Vec<String> = vec![];
                    let mut died: Vec<String> = vec![];
                    for k in 0..4 {
                        if let Par::Died(how) = &obs[k] {
                            died.push(format!("{}:{}", BACKENDS[k], how.chars().take(40).collect::<String>()));
                        }
                    }
                    for (x, y) in pairs {
                        let acc = |o: &Par| match o {
                            Par::Accept(_) | Par::AcceptDeeper(_) => Some(true),
                            Par::Reject(_) => Some(false),
                            _ => None,
                        };
                        match (acc(&obs[x]), acc(&obs[y])) {
                            (Some(a), Some(b2)) if a != b2 => acc_dis.push(format!("{}={} {}={}", BACKENDS[x], if a { "accept" } else { "reject" }, BACKENDS[y], if b2 { "accept" } else { "reject" })),
                            _ => {}
                        }
                    }
                    for x in 0..4 {
                        for y in x + 1..4 {
                            if let (Par::Accept(a), Par::Accept(b2)) = (&obs[x], &obs[y]) {
                                if !(values_agree(a, b2) && values_agree(b2, a)) {
                                    val_dis.push(format!("{}!={}", BACKENDS[x], BACKENDS[y]));
                                }
                            }
                        }
                    }
                    if acc_dis.is_empty() && val_dis.is_empty() && died.is_empty() {
                        inc("outcome:parsers-agree", 1);
                        continue;
                    }
                    inc("outcome:parsers-disagree", 1);
                    let reference = if t.is_struct { m.decode(&t.name, b).map(|(v, n)| if n == b.len() { Ok(v) } else { Err("trailing".to_string()) }).unwrap_or_else(|f| Err(format!("{f:?}"))) } else { m.decode_full(&t.name, b).map_err(|f| format!("{f:?}")) };
                    let refs = match &reference {
                        Ok(v) => {
                            if has_children {
                                format!("accepts children={}", javagen::child_status(&m, &t.name, v))
                            } else {
                                "accepts".to_string()
                            }
                        }
                        Err(f) => {
                            // would the reference accept if the elements of the outermost arrays
                            // were not looked at? (labels the lazily slicing C++ views)
                            m.lenient_elems.set(true);
                            let lenient = if t.is_struct { false } else { m.decode_full(&t.name, b).is_ok() };
                            m.lenient_elems.set(false);
                            format!("rejects{f}{}", if lenient { " only-because-of-array-elements" } else { "" })
                        }
                    };
                    let what = if !died.is_empty() {
                        format!("a-parser-died {died:?}")
                    } else if !acc_dis.is_empty() {
                        format!("parsers-disagree-on-acceptance {acc_dis:?}")
                    } else {
                        format!("parsers-disagree-on-values {val_dis:?}")
                    };
                    rep.report(Violation {
                        property: "C07".into(),
                        sig: format!("{what} reference={refs} kind={} markers={markers:?}", if t.is_struct { "struct" } else { "packet" }),
                        detail: json!({"state": base(), "input": model::hex(b), "rust": format!("{:?}", obs[0]), "python": format!("{:?}", obs[1]), "cxx": format!("{:?}", obs[2]), "java": format!("{:?}", obs[3])}),
                    });
                }
                if samples.len() < 3 && st.depth >= 2 && !t.values.is_empty() {
                    samples.push(json!({"state": st.id, "type": t.name, "source": text, "values": t.values.len(), "inputs": t.inputs.len(), "first_value": t.values[0].to_json(), "rust_bytes": format!("{:?}", t.rust_enc.first())}));
                }
            }
        }
    }
    let get = |k: &str| counters.get(k).copied().unwrap_or(0);
    ev.set("states", json!(h.explored_states));
    ev.set("transitions", json!(h.explored_transitions));
    ev.set("rust_compiled_states", json!(h.states.len()));
    ev.set("states_in_the_intersection", json!(eligible.len()));
    ev.set("compared_states", json!(get("states-compared")));
    ev.set("stride", json!(stride));
    ev.set("exhaustive", json!(stride <= 1));
    ev.set("traces_validated_against_impl", json!(get("values-compared") + get("inputs-compared")));
    ev.set("outcomes", json!(counters));
    ev.set("samples", json!(samples));
    ev.set("rule", json!("states = the well-formed states compiled by the Rust engine that are also inside the Python, C++ and Java supported sets (every stride-th in quick), both byte orders. The Rust harness enumerates, per packet / struct, the explored in-range values and the bounded byte-string space (B-alphabet strings <= 3 (4), all 1-byte strings, every prefix / extension / substitution / field-targeted mutant of the reference encodings, plus every encoding its own serializer produced), executes the generated Rust code and reports raw observations. The same values and inputs go to the generated Python (pydrv.py), C++ (generated driver, ASan+UBSan) and Java (Drv.java) code. Oracle, directly between backends: the serializers that offer the operation must produce identical bytes; the parsers must agree on acceptance (for a type with children within {Rust, C++} and within {Python, Java}, which specialise) and, wherever two of them accept at the level of the type, on every field value; a parser that dies is a violation. Since every Rust encoding is an input and the serializers agree on it, parse_Y(serialize_X(v)) = v is covered for every pair. The reference model only labels a disagreement (who agrees with it)."));
    ev.assumptions = vec![
        "the operation list is produced by the Rust harness; values are in range according to the reference model (used for enumeration only)".into(),
        "Java offers no concrete class for a declaration with a _body_ and no fromBytes on abstract intermediate classes; Python parses from the root and specialises: such operations are absent for that backend and the comparison runs over the others".into(),
    ];
    let code = rep.finish(&mut ev);
    let distinct = counters.iter().filter(|(k, v)| k.starts_with("outcome:") && **v > 0).count();
    ev.set("distinct_outcome_classes", json!(distinct));
    ev.write(&format!("{VERIF_DIR}/evidence"));
    if machinery.load(Ordering::Relaxed) > 0 {
        return 2;
    }
    if get("values-compared") == 0 || get("inputs-compared") == 0 {
        eprintln!("machinery error: nothing was compared");
        return 2;
    }
    println!("C07 {}: intersection={} compared_states={} values={} inputs={} violations={} known={} wall={:.1}s", tier_name(tier), eligible.len(), get("states-compared"), get("values-compared"), get("inputs-compared"), ev.violations, ev.known, ev.start.elapsed().as_secs_f64());
    code
}
