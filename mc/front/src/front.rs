//! The `front` engine: explicit-state exploration of the description graph against the real
//! parser / analyzer / generators, in-process.

use crate::drive::{self, Backend, Outcome};
use pdl_compiler::{analyzer, ast};
use pdlmc_core::evidence::Evidence;
use pdlmc_core::graph::{self, State, Tier};
use pdlmc_core::ir::*;
use pdlmc_core::model::{Model, Val};
use pdlmc_core::render::{self, Pres, Radix};
use pdlmc_core::report::{Reporter, Violation};
use pdlmc_core::rules::{self, Viol};
use pdlmc_core::sizes;
use pdlmc_core::values::{Budget, ValueGen};
use rayon::prelude::*;
use serde_json::json;
use std::collections::{BTreeMap, BTreeSet};

pub fn tier_name(t: Tier) -> &'static str {
    match t {
        Tier::Quick => "quick",
        Tier::Thorough => "thorough",
    }
}

pub fn explore(tier: Tier) -> graph::Explored {
    graph::explore(&graph::all_families(), tier)
}

pub fn print_states(tier: Tier) {
    let e = explore(tier);
    for (n, s, t, d) in &e.per_family {
        println!("{n}: states={s} transitions={t} max_depth={d}");
    }
    println!("total states={} transitions={}", e.states.len(), e.transitions);
}

pub(crate) fn classes(v: &BTreeSet<Viol>) -> Vec<String> {
    let mut c: Vec<String> = v.iter().map(|x| x.class.clone()).collect();
    c.sort();
    c.dedup();
    c
}

/// Normalise a panic message: keep the text and the file, drop line numbers and identifiers in
/// backquotes / quotes (so that one defect has one signature).
pub fn norm_panic(p: &str) -> String {
    let (msg, loc) = match p.rsplit_once(" @ ") {
        Some((m, l)) => (m, l),
        None => (p, ""),
    };
    let file = loc.rsplit_once(':').map(|x| x.0).unwrap_or(loc);
    let file = file.rsplit('/').next().unwrap_or(file);
    let mut m = String::new();
    let mut in_q = false;
    for ch in msg.chars().take(160) {
        match ch {
            '"' => {
                in_q = !in_q;
                m.push(ch);
            }
            _ if in_q => {}
            '0'..='9' => m.push('#'),
            '\n' => m.push(' '),
            _ => m.push(ch),
        }
    }
    format!("{m} @{file}")
}

pub(crate) fn state_detail(s: &State, text: &str) -> serde_json::Value {
    json!({"family": s.family, "depth": s.depth, "source": text, "ir": s.desc})
}

pub(crate) struct Counters {
    pub(crate) map: BTreeMap<String, usize>,
}
impl Counters {
    pub(crate) fn new() -> Counters {
        Counters { map: BTreeMap::new() }
    }
    pub(crate) fn inc(&mut self, k: &str) {
        *self.map.entry(k.to_string()).or_default() += 1;
    }
    pub(crate) fn add(&mut self, k: &str, n: usize) {
        *self.map.entry(k.to_string()).or_default() += n;
    }
    pub(crate) fn merge(&mut self, o: Counters) {
        for (k, v) in o.map {
            *self.map.entry(k).or_default() += v;
        }
    }
}

pub(crate) fn fill_graph_evidence(ev: &mut Evidence, e: &graph::Explored) {
    ev.set("states", json!(e.states.len()));
    ev.set("transitions", json!(e.transitions));
    ev.set(
        "families",
        json!(e
            .per_family
            .iter()
            .map(|(n, s, t, d)| json!({"family": n, "states": s, "transitions": t, "depth_completed": d}))
            .collect::<Vec<_>>()),
    );
    ev.set("exhaustive", json!(true));
}

pub(crate) fn finish(mut ev: Evidence, rep: Reporter, counters: Counters, samples: Vec<serde_json::Value>) -> i32 {
    ev.set("outcomes", json!(counters.map));
    ev.set("samples", json!(samples));
    let code = rep.finish(&mut ev);
    // silence is not evidence: a run that saw a single outcome class is a machinery error
    let distinct = counters.map.iter().filter(|(k, v)| k.starts_with("outcome:") && **v > 0).count();
    ev.set("distinct_outcome_classes", json!(distinct));
    ev.write(&format!("{}/evidence", pdlmc_core::report::VERIF_DIR));
    if distinct < 2 {
        eprintln!("machinery error: exploration produced {distinct} outcome class(es)");
        return 2;
    }
    println!(
        "{} {}: states={} violations={} known={} wall={:.1}s",
        ev.property,
        ev.tier,
        ev.coverage.get("states").cloned().unwrap_or(json!(0)),
        ev.violations,
        ev.known,
        ev.start.elapsed().as_secs_f64()
    );
    code
}

// =============================================================================== C08

pub fn check_c08(tier: Tier) -> i32 {
    let mut ev = Evidence::new("C08", tier_name(tier));
    let e = explore(tier);
    fill_graph_evidence(&mut ev, &e);
    let results: Vec<(Reporter, Counters)> = e
        .states
        .par_chunks(512)
        .map(|chunk| {
            let mut rep = Reporter::new("C08");
            let mut c = Counters::new();
            for s in chunk {
                c08_state(s, &mut rep, &mut c);
            }
            (rep, c)
        })
        .collect();
    let mut rep = Reporter::new("C08");
    let mut c = Counters::new();
    for (r, k) in results {
        rep.merge(r);
        c.merge(k);
    }
    // boundary sweeps: value = 2^w - 1 vs 2^w for w in 1..=64, in each numeric rule
    let sweep = boundary_sweep_states();
    ev.set("boundary_sweep_states", json!(sweep.len()));
    for s in &sweep {
        c08_state(s, &mut rep, &mut c);
    }
    ev.set("traces_validated_against_impl", json!(c.map.get("compared").copied().unwrap_or(0)));
    ev.set(
        "rule",
        json!("every state of the description construction graph (all families, BFS to the family depth) plus the numeric boundary sweeps is rendered canonically and pushed through the real parse_inline+analyze; the verdict is compared with model.rules(D)"),
    );
    ev.assumptions = vec![
        "the well-formedness model (mc/core/src/rules.rs) is the trusted reading of doc/reference.md".into(),
        "states the reference leaves unspecified (checksums, zero widths, empty enums, single-value ranges) are only checked for crashes".into(),
    ];
    let samples = e.states.iter().step_by((e.states.len() / 5).max(1)).take(5).map(|s| json!(render::canonical(&s.desc))).collect();
    finish(ev, rep, c, samples)
}

fn c08_state(s: &State, rep: &mut Reporter, c: &mut Counters) {
    let text = render::canonical(&s.desc);
    let run = drive::run_text(&text);
    let v = rules::rules(&s.desc);
    let unspec = rules::unspecified(&s.desc);
    let cls = classes(&v);
    match &run.outcome {
        Outcome::ParsePanic(p) | Outcome::AnalyzePanic(p) => {
            c.inc("outcome:panic");
            let stage = if matches!(run.outcome, Outcome::ParsePanic(_)) { "parse" } else { "analyze" };
            rep.report(Violation {
                property: "C08".into(),
                sig: format!("panic stage={stage} msg={} triggers={:?}", norm_panic(p), rules::triggers(&s.desc)),
                detail: json!({"state": state_detail(s, &text), "panic": p, "model_rules": v}),
            });
        }
        Outcome::ParseErr(m) => {
            c.inc("outcome:parse-error");
            // the canonical rendering of a state is always inside the grammar
            rep.report(Violation {
                property: "C08".into(),
                sig: format!("canonical-rendering-rejected-by-parser msg={}", norm_panic(m)),
                detail: json!({"state": state_detail(s, &text), "message": m}),
            });
        }
        Outcome::Accepted => {
            c.inc("outcome:accepted");
            if unspec.is_some() {
                c.inc("unspecified");
                return;
            }
            c.inc("compared");
            if !v.is_empty() {
                rep.report(Violation {
                    property: "C08".into(),
                    sig: format!("accepted-illformed classes={:?}", cls),
                    detail: json!({"state": state_detail(s, &text), "model_rules": v}),
                });
            }
        }
        Outcome::AnalyzeErr { codes, problems } => {
            c.inc("outcome:rejected");
            for code in codes {
                c.inc(&format!("code:{code}"));
            }
            if !problems.is_empty() {
                rep.report(Violation {
                    property: "C08".into(),
                    sig: format!("bad-diagnostic {:?} codes={:?}", problems.iter().map(|p| norm_panic(p)).collect::<Vec<_>>(), codes),
                    detail: json!({"state": state_detail(s, &text), "problems": problems, "codes": codes}),
                });
            }
            if unspec.is_some() {
                c.inc("unspecified");
                return;
            }
            c.inc("compared");
            if v.is_empty() {
                // reported under C09 (well-formed input must be accepted)
                c.inc("rejected-wellformed(C09)");
                return;
            }
            let expected: BTreeSet<String> = v.iter().filter(|x| x.code != 0).map(|x| format!("E{}", x.code)).collect();
            let any_code_ok = v.iter().any(|x| x.code == 0);
            let hit = codes.iter().any(|c| expected.contains(c));
            if !(hit || any_code_ok) {
                rep.report(Violation {
                    property: "C08".into(),
                    sig: format!("wrong-code expected={:?} got={:?}", expected, codes),
                    detail: json!({"state": state_detail(s, &text), "model_rules": v, "codes": codes}),
                });
            }
            let extra = codes.iter().filter(|c| !expected.contains(*c)).count();
            if extra > 0 {
                c.add("extra_codes", extra);
            }
        }
    }
}

/// value = 2^w - 1 (legal) vs 2^w (illegal) for every numeric rule and w in 1..=64
fn boundary_sweep_states() -> Vec<State> {
    let mut out = vec![];
    let mut push = |d: Desc| out.push(State { family: "SWEEP", depth: 0, desc: std::sync::Arc::new(d) });
    for w in 1..=64u64 {
        let max = max_of_width(w);
        let mut vals = vec![max];
        if w < 64 {
            vals.push(max + 1);
        }
        // pad every declaration to a whole number of octets
        let fill = |w: u64| -> Vec<Field> {
            if w % 8 == 0 {
                vec![]
            } else {
                vec![reserved(8 - w % 8)]
            }
        };
        for v in vals {
            // E32 fixed
            let mut f = vec![fixed(w, v)];
            f.extend(fill(w));
            push(Desc { endian: Endian::Little, decls: vec![packet("P", f)] });
            // E14 tag value, E40 range bound
            push(Desc { endian: Endian::Big, decls: vec![enum_decl("E", w, vec![tv("A", v)])] });
            if v >= 1 {
                push(Desc { endian: Endian::Big, decls: vec![enum_decl("E", w, vec![tr("R", 0, v, vec![])])] });
            }
            // E18 constraint, in a child and through a group
            let mut f = vec![scalar("a", w)];
            f.extend(fill(w));
            let mut pf = f.clone();
            pf.push(payload());
            push(Desc {
                endian: Endian::Little,
                decls: vec![packet("P", pf), child_packet("C", "P", vec![cint("a", v)], vec![])],
            });
            push(Desc {
                endian: Endian::Little,
                decls: vec![group("G", f), packet("P", vec![group_use("G", vec![cint("a", v)])])],
            });
        }
    }
    // bit offsets 7 / 8 / 9 in front of every non bit-field kind
    for off in [1u64, 7, 8, 9, 15, 16] {
        let kinds: Vec<Field> = vec![
            array_w("x", 8, Shape::Unsized),
            payload(),
            body(),
            typedef("x", "S"),
            array_w("x", 8, Shape::Static(2)),
        ];
        for k in kinds {
            let fields = vec![scalar("a", off), k];
            push(Desc { endian: Endian::Little, decls: vec![strukt("S", vec![scalar("s", 8)]), packet("P", fields)] });
        }
    }
    // totals 7 / 9 / 15 / 17 / 63 / 65
    for total in [7u64, 8, 9, 15, 16, 17, 63, 64, 65] {
        if total <= 64 {
            push(Desc { endian: Endian::Little, decls: vec![packet("P", vec![scalar("a", total)])] });
        }
        push(Desc { endian: Endian::Little, decls: vec![strukt("P", vec![scalar("a", 4), scalar("b", total - 4)])] });
    }
    out
}

// =============================================================================== C09

fn sorted_decls(d: &Desc) -> Vec<Decl> {
    let mut v = d.decls.clone();
    v.sort_by(|a, b| a.id.cmp(&b.id));
    v
}

#[derive(Debug, Clone, PartialEq, Eq)]
struct Verdict {
    class: String,
    codes: Vec<String>,
    decls: Option<Vec<Decl>>,
}

fn verdict(run: &drive::Run) -> Verdict {
    match &run.outcome {
        Outcome::ParsePanic(p) => Verdict { class: format!("parse-panic {}", norm_panic(p)), codes: vec![], decls: None },
        Outcome::ParseErr(_) => Verdict { class: "parse-error".into(), codes: vec![], decls: None },
        Outcome::AnalyzePanic(p) => Verdict { class: format!("analyze-panic {}", norm_panic(p)), codes: vec![], decls: None },
        Outcome::AnalyzeErr { codes, .. } => Verdict { class: "rejected".into(), codes: codes.clone(), decls: None },
        Outcome::Accepted => Verdict {
            class: "accepted".into(),
            codes: vec![],
            decls: Some(sorted_decls(&drive::from_ast(run.analyzed.as_ref().unwrap()))),
        },
    }
}

/// All presentations with exactly one deviation from the canonical rendering. `own`: only
/// deviate inside these declarations (None: everywhere, including the endianness line).
pub fn single_deviations(d: &Desc, own: Option<&BTreeSet<usize>>, tier: Tier) -> Vec<(String, Pres)> {
    let base = render::render(d, &Pres::default());
    let mut out = vec![];
    let seps_all: [(&str, &str); 7] = [
        ("tab", "\t"),
        ("crlf", "\r\n"),
        ("block-comment", " /* c */ "),
        ("line-comment", " // c\n"),
        ("lf", "\n"),
        ("utf8-comment", " /* \u{e9}\u{4e16} */ "),
        ("two-spaces", "  "),
    ];
    let seps: &[(&str, &str)] = if tier == Tier::Quick { &seps_all[..4] } else { &seps_all[..] };
    let inside = |dx: Option<usize>| match (own, dx) {
        (None, _) => true,
        (Some(set), Some(i)) => set.contains(&i),
        (Some(_), None) => false,
    };
    for i in 0..base.n_tokens {
        if !inside(base.tok_decl[i]) {
            continue;
        }
        for (name, sep) in seps.iter() {
            let mut p = Pres::default();
            p.gaps.insert(i, sep.to_string());
            out.push((format!("gap{i}:{name}"), p));
        }
        // glue (no separator) where the two tokens cannot merge
        if i + 1 < base.toks.len() && render::can_glue(&base.toks[i], &base.toks[i + 1]) {
            let mut p = Pres::default();
            p.gaps.insert(i, String::new());
            out.push((format!("gap{i}:glue"), p));
            // a bare comment as separator
            let mut p = Pres::default();
            p.gaps.insert(i, "/**/".to_string());
            out.push((format!("gap{i}:bare-comment"), p));
        }
    }
    for i in 0..base.n_ints {
        if !inside(base.int_decl[i]) {
            continue;
        }
        for (name, r) in [
            ("hex", Radix::HexLower),
            ("HEX", Radix::HexUpperDigits),
            ("0X", Radix::HexUpperX),
            ("zeros", Radix::LeadingZeros),
        ] {
            let mut p = Pres::default();
            p.radix.insert(i, r);
            out.push((format!("int{i}:{name}"), p));
        }
    }
    for i in 0..base.n_lists {
        if !inside(base.lists[i].0) {
            continue;
        }
        let mut p = Pres::default();
        p.trailing_comma.insert(i, true);
        out.push((format!("list{i}:trailing-comma-{}", base.lists[i].1), p));
    }
    if own.is_none() {
        for (name, pre) in [("lead-space", "  "), ("lead-comment", "// hello\n/* x */\n"), ("lead-crlf", "\r\n")] {
            let mut p = Pres::default();
            p.prefix = pre.to_string();
            out.push((format!("prefix:{name}"), p));
        }
    }
    out
}

/// Declarations of a state that are not verbatim helper declarations of its family's initial
/// states (those are deviated once, in the depth-0 state).
pub fn own_decls(s: &State, helpers: &std::collections::HashSet<Decl>) -> Option<BTreeSet<usize>> {
    if s.depth == 0 {
        return None;
    }
    Some(s.desc.decls.iter().enumerate().filter(|(_, d)| !helpers.contains(*d)).map(|(i, _)| i).collect())
}

pub fn helper_decls(e: &graph::Explored) -> std::collections::HashSet<Decl> {
    e.states.iter().filter(|s| s.depth == 0).flat_map(|s| s.desc.decls.iter().cloned()).collect()
}

fn permutations(n: usize, max_full: usize) -> Vec<Vec<usize>> {
    fn heap(k: usize, a: &mut Vec<usize>, out: &mut Vec<Vec<usize>>) {
        if k <= 1 {
            out.push(a.clone());
            return;
        }
        for i in 0..k {
            heap(k - 1, a, out);
            if k % 2 == 0 {
                a.swap(i, k - 1);
            } else {
                a.swap(0, k - 1);
            }
        }
    }
    let id: Vec<usize> = (0..n).collect();
    if n <= max_full {
        let mut out = vec![];
        heap(n, &mut id.clone(), &mut out);
        out.sort();
        out.dedup();
        out
    } else {
        // fixed generating set: identity, reversal, rotations, adjacent transpositions
        let mut out = vec![id.clone()];
        let mut r = id.clone();
        r.reverse();
        out.push(r);
        for k in 1..n {
            let mut p = id.clone();
            p.rotate_left(k);
            out.push(p);
        }
        for k in 0..n - 1 {
            let mut p = id.clone();
            p.swap(k, k + 1);
            out.push(p);
        }
        out.sort();
        out.dedup();
        out
    }
}

pub fn check_c09(tier: Tier) -> i32 {
    let mut ev = Evidence::new("C09", tier_name(tier));
    let e = explore(tier);
    fill_graph_evidence(&mut ev, &e);
    let pres_depth = match tier {
        Tier::Quick => 2,
        Tier::Thorough => 3,
    };
    let helpers = helper_decls(&e);
    let results: Vec<(Reporter, Counters)> = e
        .states
        .par_chunks(64)
        .map(|chunk| {
            let mut rep = Reporter::new("C09");
            let mut c = Counters::new();
            for s in chunk {
                c09_state(s, pres_depth, tier, &helpers, &mut rep, &mut c);
            }
            (rep, c)
        })
        .collect();
    let mut rep = Reporter::new("C09");
    let mut c = Counters::new();
    for (r, k) in results {
        rep.merge(r);
        c.merge(k);
    }
    ev.set("traces_validated_against_impl", json!(c.map.get("runs").copied().unwrap_or(0)));
    ev.set("presentations_compared", json!(c.map.get("presentations").copied().unwrap_or(0)));
    ev.set("permutations_compared", json!(c.map.get("permutations").copied().unwrap_or(0)));
    ev.set("group_twins_compared", json!(c.map.get("group-twins").copied().unwrap_or(0)));
    ev.set("rule", json!(format!("(a) every state with no violated model rule must be accepted; (b) for every state of depth <= {pres_depth}: every rendering with one deviation (separator of one gap, radix of one literal, one trailing comma, a prefix) and every permutation of the declarations (all for <= 5 declarations, else identity/reversal/rotations/adjacent swaps) must give the same acceptance, the same set of error codes and the same analyzed declarations as the canonical rendering; (c) every state that uses groups is compared with its hand-inlined twin: equal analyzed declarations and identical Rust, Python and C++ output")));
    ev.assumptions = vec![
        "analyzed declarations are compared after conversion to the explorer's IR, sorted by identifier (source locations and keys ignored)".into(),
        "a bare comment directly after a keyword is not generated (the pest grammar demands a whitespace character there and the reference is informal about it)".into(),
    ];
    let samples = e.states.iter().filter(|s| s.family == "GR").take(3).map(|s| json!(render::canonical(&s.desc))).collect();
    finish(ev, rep, c, samples)
}

fn c09_state(s: &State, pres_depth: usize, tier: Tier, helpers: &std::collections::HashSet<Decl>, rep: &mut Reporter, c: &mut Counters) {
    let text = render::canonical(&s.desc);
    let run = drive::run_text(&text);
    c.inc("runs");
    let base = verdict(&run);
    c.inc(&format!("outcome:{}", base.class.split(' ').next().unwrap()));
    let v = rules::rules(&s.desc);
    let unspec = rules::unspecified(&s.desc);
    // (a) acceptance of well-formed input
    if v.is_empty() && unspec.is_none() {
        c.inc("wellformed");
        match &run.outcome {
            Outcome::Accepted => {}
            Outcome::AnalyzeErr { codes, .. } => rep.report(Violation {
                property: "C09".into(),
                sig: format!("rejected-wellformed codes={:?}", codes),
                detail: json!({"state": state_detail(s, &text), "codes": codes}),
            }),
            Outcome::AnalyzePanic(p) | Outcome::ParsePanic(p) => rep.report(Violation {
                property: "C09".into(),
                sig: format!("panic-on-wellformed msg={}", norm_panic(p)),
                detail: json!({"state": state_detail(s, &text), "panic": p}),
            }),
            Outcome::ParseErr(m) => rep.report(Violation {
                property: "C09".into(),
                sig: format!("parse-error-on-canonical msg={}", norm_panic(m)),
                detail: json!({"state": state_detail(s, &text), "message": m}),
            }),
        }
    }
    // (b) presentations
    if s.depth <= pres_depth && !matches!(run.outcome, Outcome::ParseErr(_)) {
        let own = own_decls(s, helpers);
        for (name, p) in single_deviations(&s.desc, own.as_ref(), tier) {
            let r = render::render(&s.desc, &p);
            let run2 = drive::run_text(&r.text);
            c.inc("runs");
            c.inc("presentations");
            let v2 = verdict(&run2);
            if v2 != base {
                // classify the deviation kind without its index
                let kind = name.split(':').nth(1).unwrap_or(&name).to_string();
                rep.report(Violation {
                    property: "C09".into(),
                    sig: format!("presentation-changes-verdict kind={kind} canonical={} deviating={}", base.class, v2.class),
                    detail: json!({"state": state_detail(s, &text), "deviation": name, "deviating_source": r.text,
                        "canonical": {"class": base.class, "codes": base.codes}, "observed": {"class": v2.class, "codes": v2.codes}}),
                });
            }
        }
        // permutations of the declarations
        let n = s.desc.decls.len();
        let max_perm_decls = if tier == Tier::Quick { 8 } else { 10 };
        if n >= 2 && n <= max_perm_decls {
            for perm in permutations(n, if tier == Tier::Quick { 4 } else { 5 }) {
                if perm.iter().enumerate().all(|(i, k)| i == *k) {
                    continue;
                }
                let d2 = Desc { endian: s.desc.endian, decls: perm.iter().map(|k| s.desc.decls[*k].clone()).collect() };
                let t2 = render::canonical(&d2);
                let run2 = drive::run_text(&t2);
                c.inc("runs");
                c.inc("permutations");
                let v2 = verdict(&run2);
                if v2 != base {
                    rep.report(Violation {
                        property: "C09".into(),
                        sig: format!("order-changes-verdict canonical={}/{:?} permuted={}/{:?}", base.class, base.codes, v2.class, v2.codes),
                        detail: json!({"state": state_detail(s, &text), "permutation": perm, "permuted_source": t2}),
                    });
                }
            }
        }
    }
    // (c) groups behave as inlined
    let uses_groups = s.desc.decls.iter().any(|d| d.fields().iter().any(|f| matches!(f.kind, FieldKind::Group { .. })));
    if uses_groups && matches!(run.outcome, Outcome::Accepted) && unspec.is_none() {
        if let Some(inl) = rules::inline_groups(&s.desc) {
            let t2 = render::canonical(&inl);
            let run2 = drive::run_text(&t2);
            c.inc("runs");
            c.inc("group-twins");
            let v2 = verdict(&run2);
            if v2 != base {
                rep.report(Violation {
                    property: "C09".into(),
                    sig: format!("group-not-as-inlined with-groups={} inlined={}/{:?}", base.class, v2.class, v2.codes),
                    detail: json!({"state": state_detail(s, &text), "inlined_source": t2}),
                });
            } else {
                for b in [Backend::Rust, Backend::Python, Backend::Cxx] {
                    let g1 = drive::generate(b, &run, None);
                    let g2 = drive::generate(b, &run2, None);
                    let same = match (&g1, &g2) {
                        (Ok(a), Ok(b)) => a == b,
                        (Err(a), Err(b)) => norm_panic(a) == norm_panic(b),
                        _ => false,
                    };
                    if !same {
                        rep.report(Violation {
                            property: "C09".into(),
                            sig: format!("group-code-differs-from-inlined backend={}", b.name()),
                            detail: json!({"state": state_detail(s, &text), "inlined_source": t2,
                                "with_groups": g1.as_ref().map(|s| s.len()).map_err(|e| e.clone()), "inlined": g2.as_ref().map(|s| s.len()).map_err(|e| e.clone())}),
                        });
                    }
                }
            }
        }
    }
}

// =============================================================================== C16

fn conv_size(s: analyzer::Size) -> sizes::Size {
    match s {
        analyzer::Size::Static(n) => sizes::Size::Static(n as u64),
        analyzer::Size::Dynamic => sizes::Size::Dynamic,
        analyzer::Size::Unknown => sizes::Size::Unknown,
    }
}

pub fn check_c16(tier: Tier) -> i32 {
    let mut ev = Evidence::new("C16", tier_name(tier));
    let e = explore(tier);
    fill_graph_evidence(&mut ev, &e);
    let budget = if tier == Tier::Quick { Budget { max_values: 60, pairs: false, nested_alts: 2, max_array_len: 40 } } else { Budget { max_values: 400, pairs: true, nested_alts: 3, max_array_len: 300 } };
    let results: Vec<(Reporter, Counters)> = e
        .states
        .par_chunks(128)
        .map(|chunk| {
            let mut rep = Reporter::new("C16");
            let mut c = Counters::new();
            for s in chunk {
                c16_state(s, budget, &mut rep, &mut c);
            }
            (rep, c)
        })
        .collect();
    let mut rep = Reporter::new("C16");
    let mut c = Counters::new();
    for (r, k) in results {
        rep.merge(r);
        c.merge(k);
    }
    ev.set("traces_validated_against_impl", json!(c.map.get("size-queries").copied().unwrap_or(0)));
    ev.set("encodings_measured", json!(c.map.get("encodings").copied().unwrap_or(0)));
    ev.set("rule", json!("for every accepted state: every public Schema query (field_size, decl_size, parent_size, payload_size, total_size, padded_size) and element_size()/array_size() is compared with the model's size classes; for every packet/struct whose size is Static(n) every explored value's reference encoding must have exactly n bits (for Static own+parent sizes with a dynamic payload: the length minus the payload)"));
    ev.assumptions = vec!["the reference encoder (mc/core/src/model.rs) defines the encodings that are measured".into()];
    let samples = e.states.iter().filter(|s| s.family == "AR").skip(50).take(3).map(|s| json!(render::canonical(&s.desc))).collect();
    finish(ev, rep, c, samples)
}

fn c16_state(s: &State, budget: Budget, rep: &mut Reporter, c: &mut Counters) {
    let text = render::canonical(&s.desc);
    let run = drive::run_text(&text);
    let analyzed = match (&run.outcome, &run.analyzed) {
        (Outcome::Accepted, Some(a)) => a,
        (o, _) => {
            c.inc(match o {
                Outcome::AnalyzeErr { .. } => "outcome:rejected",
                Outcome::ParseErr(_) => "outcome:parse-error",
                _ => "outcome:panic",
            });
            return;
        }
    };
    c.inc("outcome:accepted");
    // only states the model considers well-formed have reference sizes
    if !rules::rules(&s.desc).is_empty() || rules::unspecified(&s.desc).is_some() {
        c.inc("accepted-but-not-wellformed(skipped)");
        return;
    }
    let inl = match rules::inline_groups(&s.desc) {
        Some(i) => i,
        None => return,
    };
    let schema = match drive::guarded(|| analyzer::Schema::new(analyzed)) {
        Ok(s) => s,
        Err(p) => {
            rep.report(Violation {
                property: "C16".into(),
                sig: format!("schema-panic msg={}", norm_panic(&p)),
                detail: json!({"state": state_detail(s, &text), "panic": p}),
            });
            return;
        }
    };
    let scope = match analyzer::Scope::new(analyzed) {
        Ok(s) => s,
        Err(_) => return,
    };
    let mut bad = |what: String, detail: serde_json::Value, rep: &mut Reporter| {
        rep.report(Violation {
            property: "C16".into(),
            sig: what,
            detail: json!({"state": state_detail(s, &text), "mismatch": detail}),
        });
    };
    for adecl in &analyzed.declarations {
        let id = match adecl.id() {
            Some(i) => i,
            None => continue,
        };
        let mdecl = match inl.get(id) {
            Some(d) => d,
            None => continue,
        };
        let pairs = [
            ("decl_size", conv_size(schema.decl_size(adecl.key)), sizes::decl_size(&inl, id)),
            ("parent_size", conv_size(schema.parent_size(adecl.key)), sizes::parent_size(&inl, id)),
            ("payload_size", conv_size(schema.payload_size(adecl.key)), sizes::payload_size(&inl, id)),
            ("total_size", conv_size(schema.total_size(adecl.key)), sizes::total_size(&inl, id)),
        ];
        for (q, got, want) in pairs {
            c.inc("size-queries");
            if got != want {
                bad(
                    format!("{q} impl={:?} model={:?} decl-kind={}", class_only(got), class_only(want), mdecl.kind_name()),
                    json!({"query": q, "decl": id, "impl": format!("{got:?}"), "model": format!("{want:?}")}),
                    rep,
                );
            }
        }
        let afields: Vec<&ast::Field> = adecl.fields().collect();
        let mfields = mdecl.fields();
        if afields.len() != mfields.len() {
            continue;
        }
        for (i, (af, mf)) in afields.iter().zip(mfields.iter()).enumerate() {
            c.inc("size-queries");
            let got = conv_size(schema.field_size(af.key));
            let want = sizes::field_size(&inl, mdecl, mf);
            if got != want {
                bad(
                    format!("field_size impl={:?} model={:?} field-kind={}", class_only(got), class_only(want), af.kind()),
                    json!({"query": "field_size", "decl": id, "field": i, "impl": format!("{got:?}"), "model": format!("{want:?}")}),
                    rep,
                );
            }
            let got_pad = schema.padded_size(af.key).map(|x| x as u64);
            let want_pad = match mfields.get(i + 1).map(|n| &n.kind) {
                Some(FieldKind::Padding { size }) => Some(size * 8),
                _ => None,
            };
            c.inc("size-queries");
            if got_pad != want_pad {
                bad(
                    format!("padded_size impl={:?} model={:?}", got_pad.is_some(), want_pad.is_some()),
                    json!({"query": "padded_size", "decl": id, "field": i, "impl": got_pad, "model": want_pad}),
                    rep,
                );
            }
            if let FieldKind::Array { id: aid, elem, shape } = &mf.kind {
                c.inc("size-queries");
                let es = analyzer::element_size(&scope, &schema, adecl, af);
                let want_es = match elem {
                    Elem::Width(w) => Some(sizes::Size::Static(*w)),
                    Elem::Type(t) => Some(sizes::total_size(&inl, t)),
                };
                let has_esize = mfields.iter().any(|g| matches!(&g.kind, FieldKind::ElementSize { field_id, .. } if field_id == aid));
                let ok = match (es, want_es) {
                    (analyzer::ElementSize::Static(n), Some(sizes::Size::Static(m))) => (n as u64) * 8 == m,
                    (analyzer::ElementSize::Dynamic, Some(sizes::Size::Static(_))) => false,
                    (analyzer::ElementSize::Dynamic, Some(_)) => has_esize,
                    (analyzer::ElementSize::Unknown, Some(sizes::Size::Static(_))) => false,
                    (analyzer::ElementSize::Unknown, Some(_)) => !has_esize,
                    _ => false,
                };
                if !ok {
                    bad(
                        format!("element_size impl={:?} model={:?}", std::mem::discriminant(&es), want_es.map(class_only)),
                        json!({"query": "element_size", "decl": id, "field": i, "impl": format!("{es:?}"), "model": format!("{want_es:?}")}),
                        rep,
                    );
                }
                c.inc("size-queries");
                let asz = analyzer::array_size(adecl, af);
                let has_count = mfields.iter().any(|g| matches!(&g.kind, FieldKind::Count { field_id, .. } if field_id == aid));
                let has_size = mfields.iter().any(|g| matches!(&g.kind, FieldKind::Size { field_id, .. } if field_id == aid));
                let ok = match (asz, shape) {
                    (analyzer::ArraySize::StaticCount(n), Shape::Static(m)) => n as u64 == *m,
                    (analyzer::ArraySize::DynamicCount, Shape::Unsized | Shape::Modifier(_)) => has_count,
                    (analyzer::ArraySize::DynamicSize, Shape::Unsized | Shape::Modifier(_)) => has_size && !has_count,
                    (analyzer::ArraySize::Unknown, Shape::Unsized | Shape::Modifier(_)) => !has_size && !has_count,
                    _ => false,
                };
                if !ok {
                    bad(
                        format!("array_size impl={:?}", std::mem::discriminant(&asz)),
                        json!({"query": "array_size", "decl": id, "field": i, "impl": format!("{asz:?}")}),
                        rep,
                    );
                }
            }
        }
        // Static(n) => every encoding has n bits
        if !mdecl.is_pkt_or_struct() || !encodable(&inl, id) {
            continue;
        }
        let total = conv_size(schema.total_size(adecl.key));
        let own_parent = conv_size(schema.decl_size(adecl.key)).add(conv_size(schema.parent_size(adecl.key)));
        if matches!(total, sizes::Size::Static(_)) || matches!(own_parent, sizes::Size::Static(_)) {
            let m = Model::new(&inl);
            let vg = ValueGen { m: &m, budget };
            let r = drive::guarded(|| {
                let mut out = vec![];
                for v in vg.values(id).ok {
                    if let Ok(enc) = m.encode(id, &v) {
                        let plen = match v.rec().get("payload") {
                            Some(Val::Bytes(b)) if mdecl.payload().is_some() => b.len(),
                            _ => 0,
                        };
                        out.push((enc.bytes.len(), plen, v));
                    }
                }
                out
            });
            match r {
                Ok(list) => {
                    for (len, plen, v) in list {
                        c.inc("encodings");
                        if let sizes::Size::Static(n) = total {
                            if (len as u64) * 8 != n {
                                bad(
                                    format!("static-total-size-differs-from-encoding decl-kind={}", mdecl.kind_name()),
                                    json!({"decl": id, "static_bits": n, "encoding_bits": len * 8, "value": v.to_json()}),
                                    rep,
                                );
                            }
                        }
                        if let sizes::Size::Static(n) = own_parent {
                            if ((len - plen) as u64) * 8 != n {
                                bad(
                                    format!("static-own+parent-size-differs-from-encoding decl-kind={}", mdecl.kind_name()),
                                    json!({"decl": id, "static_bits": n, "encoding_bits_without_payload": (len - plen) * 8, "value": v.to_json()}),
                                    rep,
                                );
                            }
                        }
                    }
                }
                Err(p) => {
                    c.inc("model-skipped");
                    let _ = p;
                }
            }
        }
    }
}

fn class_only(s: sizes::Size) -> &'static str {
    match s {
        sizes::Size::Static(_) => "Static",
        sizes::Size::Dynamic => "Dynamic",
        sizes::Size::Unknown => "Unknown",
    }
}

/// Can the model build values for this type (no unsized custom fields / checksums inside)?
pub fn encodable(d: &Desc, id: &str) -> bool {
    fn ok_type(d: &Desc, t: &str, depth: usize) -> bool {
        if depth > 6 {
            return false;
        }
        match d.get(t).map(|x| &x.kind) {
            Some(DeclKind::Enum { .. }) => true,
            Some(DeclKind::Custom { width: Some(w), .. }) => w % 8 == 0 && *w <= 64,
            Some(DeclKind::Struct { .. }) | Some(DeclKind::Packet { .. }) => {
                d.ancestry(t).iter().all(|a| {
                    a.fields().iter().all(|f| match &f.kind {
                        FieldKind::Typedef { type_id, .. } => ok_type(d, type_id, depth + 1),
                        FieldKind::Array { elem: Elem::Type(t2), .. } => ok_type(d, t2, depth + 1),
                        FieldKind::Checksum { .. } => false,
                        _ => true,
                    })
                })
            }
            _ => false,
        }
    }
    ok_type(d, id, 0)
}


/// Statistics used to size the compiled tiers.
pub fn print_supported(tier: Tier) {
    use pdlmc_core::support::{unsupported, Lang};
    let e = explore(tier);
    let mut m: BTreeMap<(String, usize), [usize; 6]> = BTreeMap::new();
    for s in &e.states {
        let ent = m.entry((s.family.to_string(), s.depth)).or_insert([0; 6]);
        ent[0] += 1;
        if !rules::rules(&s.desc).is_empty() || rules::unspecified(&s.desc).is_some() {
            continue;
        }
        ent[1] += 1;
        if let Some(inl) = rules::inline_groups(&s.desc) {
            for (i, l) in [Lang::Rust, Lang::Python, Lang::Cxx, Lang::Java].iter().enumerate() {
                if unsupported(*l, &inl).is_none() {
                    ent[2 + i] += 1;
                }
            }
        }
    }
    println!("family depth states wf rust python cxx java");
    for ((f, d), v) in m {
        println!("{f} {d} {} {} {} {} {} {}", v[0], v[1], v[2], v[3], v[4], v[5]);
    }
}
