//! The `rust` engine: generate harness crates from the selected states with the real Rust
//! backend, build them, run the shard processes and merge their verdicts.

use crate::drive::{self, Backend, Outcome};
use crate::front::{explore, norm_panic, tier_name};
use pdlmc_core::evidence::Evidence;
use pdlmc_core::graph::Tier;
use pdlmc_core::ir::*;
use pdlmc_core::render;
use pdlmc_core::report::{Reporter, Violation, VERIF_DIR};
use pdlmc_core::rules;
use pdlmc_core::select::{self, Selected};
use pdlmc_core::support::Lang;
use rayon::prelude::*;
use serde_json::json;
use std::collections::{BTreeMap, BTreeSet};
use std::path::{Path, PathBuf};
use std::process::Command;

/// Number of harness crates: 16 in quick; 64 in thorough (about 10^4 states), so that one
/// rustc invocation stays near the size of a quick shard; thorough builds also run 8 rustc
/// processes at a time (memory).
pub fn shards(tier: Tier) -> usize {
    match tier {
        Tier::Quick => 16,
        Tier::Thorough => 64,
    }
}

pub struct Harness {
    pub dir: PathBuf,
    pub states: Vec<Selected>,
    pub strata: Vec<(String, usize, usize, usize)>,
    pub explored_states: usize,
    pub explored_transitions: usize,
    /// modules that the backend could not generate or rustc could not compile: (state, endian, why)
    pub excluded: Vec<(usize, String, String)>,
    pub modules: usize,
    pub build_s: f64,
    pub shards: usize,
    pub thorough: bool,
    /// cargo target directory of the harness
    pub target: String,
}

fn write_if_changed(p: &Path, content: &str) {
    if let Ok(old) = std::fs::read_to_string(p) {
        if old == content {
            return;
        }
    }
    if let Some(d) = p.parent() {
        std::fs::create_dir_all(d).expect("mkdir");
    }
    std::fs::write(p, content).expect("write");
}

fn backing(w: u64) -> u64 {
    for b in [8, 16, 32, 64] {
        if w <= b {
            return b;
        }
    }
    64
}

fn module_table(mname: &str, st: &Selected, big: bool, inl: &Desc) -> String {
    let mut types = vec![];
    let mut convs = vec![];
    let mut enums = vec![];
    let mut impls = String::new();
    let model = pdlmc_core::model::Model::new(inl);
    for d in &inl.decls {
        match &d.kind {
            DeclKind::Packet { .. } | DeclKind::Struct { .. } => {
                let kind = if d.is_packet() { "packet" } else { "struct" };
                let id = &d.id;
                let children: Vec<&Decl> = inl.children(id).collect();
                let has_payload = d.payload().is_some();
                // field-by-field conversion, checked by rustc against the generated struct
                let fields: Vec<String> = model.data_fields(id).iter().map(|(_, f)| f.id().unwrap().to_string()).collect();
                let mut from = String::new();
                let mut to = String::new();
                for f in &fields {
                    from.push_str(&format!("{f}: pdlmc_rt::Conv::from_val(pdlmc_rt::get(r, \"{f}\")?)?, "));
                    to.push_str(&format!("m.insert(\"{f}\".to_string(), pdlmc_rt::Conv::to_val(&self.{f})); "));
                }
                if has_payload {
                    from.push_str("payload: pdlmc_rt::payload_from(r)?, ");
                    to.push_str("m.insert(\"payload\".to_string(), pdlmc_rt::Val::Bytes(self.payload.clone())); ");
                }
                impls.push_str(&format!(
                    "impl pdlmc_rt::Conv for gen::{mname}::{id} {{\n    fn from_val(v: &pdlmc_rt::Val) -> Result<Self, String> {{ let r = pdlmc_rt::rec(v)?; let _ = r; Ok(gen::{mname}::{id} {{ {from} }}) }}\n    fn to_val(&self) -> pdlmc_rt::Val {{ let mut m = std::collections::BTreeMap::new(); {to} pdlmc_rt::Val::Rec(m) }}\n}}\n"
                ));
                if children.is_empty() {
                    types.push(format!("pdlmc_rt::type_ops!(gen::{mname}::{id}, \"{id}\", \"{kind}\")"));
                } else {
                    let mut arms = String::new();
                    for c in &children {
                        arms.push_str(&format!(
                            "gen::{mname}::{id}Child::{c}(x) => {{ m.insert(\"{c}\".to_string(), pdlmc_rt::Conv::to_val(x)); }} ",
                            c = c.id
                        ));
                    }
                    impls.push_str(&format!(
                        "fn show_{mname}_{id}(c: &gen::{mname}::{id}Child) -> pdlmc_rt::Val {{ let mut m = std::collections::BTreeMap::new(); match c {{ {arms} gen::{mname}::{id}Child::None => {{}} }} pdlmc_rt::Val::Rec(m) }}\n"
                    ));
                    types.push(format!("pdlmc_rt::type_ops!(gen::{mname}::{id}, \"{id}\", \"{kind}\", show_{mname}_{id})"));
                }
                for a in inl.ancestry(&d.id).iter().skip(1) {
                    convs.push(format!(
                        "pdlmc_rt::conv_ops!(gen::{mname}::{p}, \"{p}\", gen::{mname}::{c}, \"{c}\")",
                        p = a.id,
                        c = d.id
                    ));
                }
            }
            DeclKind::Custom { width: Some(w), .. } => {
                let b = backing(*w);
                let id = &d.id;
                impls.push_str(&format!(
                    "impl pdlmc_rt::Conv for gen::{mname}::{id} {{\n    fn from_val(v: &pdlmc_rt::Val) -> Result<Self, String> {{ let x = <u{b} as pdlmc_rt::Conv>::from_val(v)?; <gen::{mname}::{id}>::try_from(x).map_err(|_| format!(\"{{x}} is not a valid {id}\")) }}\n    fn to_val(&self) -> pdlmc_rt::Val {{ pdlmc_rt::Val::Int(<u{b}>::from(self) as u64) }}\n}}\n"
                ));
                types.push(format!("pdlmc_rt::type_ops!(gen::{mname}::{id}, \"{id}\", \"custom\")"));
            }
            DeclKind::Enum { width, .. } => {
                let b = backing(*width);
                let id = &d.id;
                impls.push_str(&format!(
                    "impl pdlmc_rt::Conv for gen::{mname}::{id} {{\n    fn from_val(v: &pdlmc_rt::Val) -> Result<Self, String> {{ let x = <u{b} as pdlmc_rt::Conv>::from_val(v)?; <gen::{mname}::{id}>::try_from(x).map_err(|_| format!(\"{{x}} is not a valid {id}\")) }}\n    fn to_val(&self) -> pdlmc_rt::Val {{ pdlmc_rt::Val::Int(<u{b}>::from(self) as u64) }}\n}}\n"
                ));
                let mut wide = vec![];
                for w in [8u64, 16, 32, 64] {
                    if w > *width {
                        wide.push(format!("i{w}"));
                    }
                }
                for w in [8u64, 16, 32, 64] {
                    if w >= *width && w != b {
                        wide.push(format!("u{w}"));
                    }
                }
                enums.push(format!(
                    "pdlmc_rt::enum_ops!(gen::{mname}::{id}, \"{id}\", u{b}, {b}, [{wide}])",
                    wide = wide.join(", ")
                ));
            }
            _ => {}
        }
    }
    let mut body = format!("// BEGIN {mname}\n");
    body.push_str(&impls);
    body.push_str(&format!("#[inline(never)]\nfn {mname}() -> pdlmc_rt::Module {{\n    let mut types = Vec::new();\n    let mut convs = Vec::new();\n    let mut enums = Vec::new();\n"));
    for t in &types {
        body.push_str(&format!("    types.push({t});\n"));
    }
    for c in &convs {
        body.push_str(&format!("    convs.push({c});\n"));
    }
    for e in &enums {
        body.push_str(&format!("    enums.push({e});\n"));
    }
    body.push_str(&format!("    let _ = (&mut convs, &mut enums);\n    pdlmc_rt::Module {{ state: {}, big_endian: {}, types, convs, enums }}\n}}\n// END {mname}\n", st.id, big));
    body
}

const SHARD_MAIN: &str = r#"// generated by pdlmc (rust engine)
#![allow(warnings)]
mod gen;
mod table;

#[global_allocator]
static ALLOC: pdlmc_rt::CountingAlloc = pdlmc_rt::CountingAlloc;

fn main() {
    pdlmc_rt::checks::main(table::modules());
}
"#;

fn shard_cargo(i: usize) -> String {
    format!(
        r#"[package]
name = "shard_{i:02}"
version = "0.0.0"
edition = "2021"
publish = false

[features]
# the generated code derives serde only under this feature: left off (the harness converts
# values field by field instead, which compiles an order of magnitude faster)
serde = []

[dependencies]
pdlmc-rt = {{ path = "{v}/mc/rt" }}
pdl-runtime = {{ path = "/repo/pdl-runtime" }}
bytes = "1.4"
thiserror = "1.0"
"#,
        v = VERIF_DIR
    )
}

const WS_CARGO: &str = r#"[workspace]
resolver = "2"
members = [MEMBERS]

# opt-level 0 + no LTO: the harness is compiled far more often than it is run (measured:
# 0.15 s CPU per generated type against 0.45 s at opt-level 1 with thin-local LTO)
[profile.release]
opt-level = 0
debug = 0
overflow-checks = true
debug-assertions = true
codegen-units = 16
incremental = false
lto = "off"

[profile.release.package."*"]
opt-level = 2
"#;

/// extra filter for the rust tier
fn rust_extra(_pruned: &Desc, inl: &Desc) -> bool {
    // identifiers that are Rust keywords are left to the analyzer-only tiers
    !inl.decls.iter().any(|d| ["type", "match", "Self"].contains(&d.id.as_str()))
}

pub fn prepare(tier: Tier) -> Harness {
    prepare_on(tier, None)
}

/// Harness for `states` (ids 0..n) in which every module is produced by the real
/// `#[pdl_derive::pdl_inline(..)]` attribute macro instead of the text the CLI prints (C11 d).
pub fn prepare_derive(tier: Tier, states: Vec<Selected>) -> Harness {
    prepare_variant(tier, Some(states), true)
}

/// `only`: a harness for exactly these states (single-source / replay mode: one shard crate in
/// its own directory and cargo target directory) instead of the explored and selected ones.
pub fn prepare_on(tier: Tier, only: Option<Vec<Selected>>) -> Harness {
    prepare_variant(tier, only, false)
}

fn prepare_variant(tier: Tier, only: Option<Vec<Selected>>, derive: bool) -> Harness {
    let single = only.is_some();
    let (e, sel) = match only {
        Some(states) => (pdlmc_core::graph::Explored::default(), select::Selection { states, strata: vec![] }),
        None => {
            let e = explore(tier);
            let sel = select::select(&e, tier, Lang::Rust, &rust_extra);
            (e, sel)
        }
    };
    eprintln!("rust engine: {} states selected of {} explored", sel.states.len(), e.states.len());
    if std::env::var("PDLMC_SELECT_ONLY").is_ok() {
        std::process::exit(0);
    }
    let dir = PathBuf::from(if derive {
        format!("{VERIF_DIR}/work/rust_derive")
    } else if single {
        format!("{VERIF_DIR}/work/rust_single")
    } else {
        format!("{VERIF_DIR}/work/rust_{}", tier_name(tier))
    });
    let mut mod_sources: BTreeMap<String, String> = BTreeMap::new();
    std::fs::create_dir_all(&dir).expect("mkdir");
    // generate the modules with the real backend
    let gens: Vec<(usize, Vec<(bool, Result<String, String>, Desc)>)> = sel
        .states
        .par_iter()
        .map(|st| {
            let mut v = vec![];
            for big in [false, true] {
                let d = st.desc.with_endian(if big { Endian::Big } else { Endian::Little });
                let text = render::canonical(&d);
                let run = drive::run_text(&text);
                let inl = rules::inline_groups(&d).unwrap();
                let code = match &run.outcome {
                    Outcome::Accepted => drive::generate(Backend::Rust, &run, None),
                    o => Err(format!("not accepted: {o:?}")),
                };
                v.push((big, code, inl));
            }
            (st.id, v)
        })
        .collect();
    let mut excluded: Vec<(usize, String, String)> = vec![];
    // modules rustc rejected in an earlier run, keyed by the hash of their generated text
    let cache_path = dir.join("rustc_rejected.json");
    let rejected: BTreeMap<String, (String, String)> =
        std::fs::read_to_string(&cache_path).ok().and_then(|s| serde_json::from_str(&s).ok()).unwrap_or_default();
    let n_shards = if single { 1 } else { shards(tier) };
    let mut shard_mods: Vec<Vec<String>> = vec![vec![]; n_shards];
    let mut shard_tables: Vec<String> = vec![String::new(); n_shards];
    let mut modules = 0;
    let prev_excluded: BTreeSet<(usize, String)> = BTreeSet::new();
    let _ = prev_excluded;
    for (id, v) in &gens {
        let st = &sel.states[*id];
        let shard = id % n_shards;
        for (big, code, inl) in v {
            let en = if *big { "be" } else { "le" };
            let mname = format!("m{id}_{en}");
            if let Ok(c) = code {
                let hsh = format!("{:016x}", fnv1a(c.as_bytes()));
                if let Some((h2, why)) = rejected.get(&mname) {
                    if *h2 == hsh {
                        excluded.push((*id, en.to_string(), why.clone()));
                        continue;
                    }
                }
            }
            match code {
                Ok(c) => {
                    if derive {
                        let d = st.desc.with_endian(if *big { Endian::Big } else { Endian::Little });
                        mod_sources.insert(mname.clone(), render::canonical(&d));
                    }
                    // the inner attribute `#![rustfmt::skip]` is kept: the file is a module file
                    write_if_changed(&dir.join(format!("shard_{shard:02}/src/gen/{mname}.rs")), c);
                    shard_mods[shard].push(mname.clone());
                    shard_tables[shard].push_str(&module_table(&mname, st, *big, inl));
                    modules += 1;
                }
                Err(why) => excluded.push((*id, en.to_string(), format!("generate: {why}"))),
            }
        }
    }
    // which module is the first to contain each distinct type (identical types are checked once)
    let mut owners: BTreeMap<String, Vec<String>> = BTreeMap::new();
    let mut seen_keys: BTreeSet<u64> = BTreeSet::new();
    for (id, v) in &gens {
        for (big, code, inl) in v {
            if code.is_err() {
                continue;
            }
            let mut mine = vec![];
            for d in &inl.decls {
                if matches!(d.kind, DeclKind::Group { .. } | DeclKind::Checksum { .. }) {
                    continue;
                }
                if seen_keys.insert(pdlmc_core::classes::type_key(inl, &d.id)) {
                    mine.push(d.id.clone());
                }
            }
            owners.insert(format!("{id}_{}", if *big { "be" } else { "le" }), mine);
        }
    }
    write_if_changed(&dir.join("owners.json"), &serde_json::to_string(&owners).unwrap());
    let states_json = serde_json::to_string(&sel.states).unwrap();
    write_if_changed(&dir.join("states.json"), &states_json);
    let members: Vec<String> = (0..n_shards).map(|i| format!("\"shard_{i:02}\"")).collect();
    write_if_changed(&dir.join("Cargo.toml"), &WS_CARGO.replace("MEMBERS", &members.join(", ")));
    write_if_changed(&dir.join(".cargo/config.toml"), "[net]\noffline = true\n");
    if !dir.join("Cargo.lock").exists() {
        std::fs::copy(format!("{VERIF_DIR}/mc/Cargo.lock"), dir.join("Cargo.lock")).ok();
    }
    for i in 0..n_shards {
        let sd = dir.join(format!("shard_{i:02}"));
        write_if_changed(&sd.join("Cargo.toml"), &if derive { format!("{}pdl-derive = {{ path = \"/repo/pdl-derive\" }}\n", shard_cargo(i)) } else { shard_cargo(i) });
        write_if_changed(&sd.join("src/main.rs"), SHARD_MAIN);
        let gen_mod: String = if derive {
            // the module body comes from the attribute macro, not from a generated file
            shard_mods[i].iter().map(|m| format!("#[pdl_derive::pdl_inline(r####\"{}\"####)]\npub mod {m} {{}}\n", mod_sources.get(m).cloned().unwrap_or_default())).collect()
        } else {
            shard_mods[i].iter().map(|m| format!("pub mod {m};\n")).collect()
        };
        write_if_changed(&sd.join("src/gen/mod.rs"), &gen_mod);
        write_if_changed(
            &sd.join("src/table.rs"),
            &format!(
                "use crate::gen;\n{}\npub fn modules() -> Vec<pdlmc_rt::Module> {{\n    let mut v = Vec::new();\n{}    v\n}}\n",
                shard_tables[i],
                shard_mods[i].iter().map(|m| format!("    v.push({m}());\n")).collect::<String>()
            ),
        );
        // remove stale module files
        if let Ok(rd) = std::fs::read_dir(sd.join("src/gen")) {
            for f in rd.flatten() {
                let name = f.file_name().to_string_lossy().to_string();
                if name == "mod.rs" {
                    continue;
                }
                let stem = name.trim_end_matches(".rs");
                if !shard_mods[i].iter().any(|m| m == stem) {
                    std::fs::remove_file(f.path()).ok();
                }
            }
        }
    }
    Harness {
        dir,
        states: sel.states,
        strata: sel.strata,
        explored_states: e.states.len(),
        explored_transitions: e.transitions,
        excluded,
        modules,
        build_s: 0.0,
        shards: n_shards,
        thorough: tier == Tier::Thorough,
        target: if derive {
            format!("{VERIF_DIR}/work/target-rust-derive")
        } else if single {
            format!("{VERIF_DIR}/work/target-rust-single")
        } else {
            target_dir(tier == Tier::Thorough)
        },
    }
}

/// Build the harness; modules that rustc rejects are excluded (and reported) and the build is
/// repeated. Returns false on a machinery failure.
/// one cargo target directory per tier (the shard crates of the two tiers have the same names)
fn target_dir(thorough: bool) -> String {
    if thorough {
        format!("{VERIF_DIR}/work/target-rust-thorough")
    } else {
        format!("{VERIF_DIR}/work/target-rust")
    }
}

pub fn build(h: &mut Harness) -> bool {
    let t0 = std::time::Instant::now();
    for round in 0..6 {
        let out = Command::new("cargo")
            .args(["build", "--release", "--offline", "--message-format=short", "-j", if h.thorough { "8" } else { "16" }])
            .current_dir(&h.dir)
            .env("CARGO_TARGET_DIR", &h.target)
            .env("CARGO_NET_OFFLINE", "true")
            .env("RUSTFLAGS", "-Awarnings")
            .output();
        let out = match out {
            Ok(o) => o,
            Err(e) => {
                eprintln!("machinery: cannot run cargo: {e}");
                return false;
            }
        };
        if out.status.success() {
            h.build_s = t0.elapsed().as_secs_f64();
            return true;
        }
        let err = String::from_utf8_lossy(&out.stderr).to_string();
        // attribute errors to generated modules: "shard_03/src/gen/m12_le.rs:10:5: error..."
        let mut bad: BTreeMap<(usize, String, String), String> = BTreeMap::new();
        for line in err.lines() {
            if !line.contains("error") {
                continue;
            }
            if let Some(pos) = line.find("src/gen/m") {
                let rest = &line[pos + 9..];
                let end = rest.find(".rs").unwrap_or(0);
                let stem = &rest[..end]; // "12_le"
                if let Some((id, en)) = stem.split_once('_') {
                    if let Ok(id) = id.parse::<usize>() {
                        let shard = line[..pos].rsplit("shard_").next().map(|s| s[..2.min(s.len())].to_string()).unwrap_or_default();
                        bad.entry((id, en.to_string(), shard)).or_insert_with(|| line.to_string());
                    }
                }
            }
        }
        if bad.is_empty() {
            // errors in table.rs that mention a module (API mismatch between the generated
            // conversion code and the generated types)
            let re_mod = |l: &str| -> Option<(usize, String)> {
                let pos = l.find("gen::m")?;
                let rest = &l[pos + 6..];
                let end = rest.find("::")?;
                let (id, en) = rest[..end].split_once('_')?;
                Some((id.parse().ok()?, en.to_string()))
            };
            let lines: Vec<&str> = err.lines().collect();
            for (i, l) in lines.iter().enumerate() {
                if l.contains("error") {
                    for k in i..(i + 12).min(lines.len()) {
                        if let Some((id, en)) = re_mod(lines[k]) {
                            bad.entry((id, en, String::new())).or_insert_with(|| format!("{} | {}", l, lines[k]));
                            break;
                        }
                    }
                }
            }
        }
        if bad.is_empty() {
            eprintln!("machinery: harness build failed without a generated module to blame (round {round}):\n{}", err.lines().rev().take(40).collect::<Vec<_>>().into_iter().rev().collect::<Vec<_>>().join("\n"));
            return false;
        }
        // remember the rejected modules (by content hash) so that the next run skips them
        {
            let cache_path = h.dir.join("rustc_rejected.json");
            let mut rejected: BTreeMap<String, (String, String)> =
                std::fs::read_to_string(&cache_path).ok().and_then(|s| serde_json::from_str(&s).ok()).unwrap_or_default();
            for ((id, en, _), line) in &bad {
                let mname = format!("m{id}_{en}");
                let shard = id % h.shards;
                let code = std::fs::read_to_string(h.dir.join(format!("shard_{shard:02}/src/gen/{mname}.rs"))).unwrap_or_default();
                rejected.insert(mname, (format!("{:016x}", fnv1a(code.as_bytes())), format!("rustc: {line}")));
            }
            std::fs::write(&cache_path, serde_json::to_string(&rejected).unwrap()).ok();
        }
        for ((id, en, _shard), line) in &bad {
            h.excluded.push((*id, en.clone(), format!("rustc: {line}")));
            let shard = id % h.shards;
            let sd = h.dir.join(format!("shard_{shard:02}"));
            let mname = format!("m{id}_{en}");
            // drop the module from mod.rs and table.rs
            let modrs = std::fs::read_to_string(sd.join("src/gen/mod.rs")).unwrap_or_default();
            let modrs: String = modrs.lines().filter(|l| *l != format!("pub mod {mname};")).map(|l| format!("{l}\n")).collect();
            std::fs::write(sd.join("src/gen/mod.rs"), modrs).ok();
            let table = std::fs::read_to_string(sd.join("src/table.rs")).unwrap_or_default();
            // remove the module's block and its registration
            let begin = format!("// BEGIN {mname}");
            let end = format!("// END {mname}");
            let mut outl = String::new();
            let mut skipping = false;
            for l in table.lines() {
                if l == begin {
                    skipping = true;
                    continue;
                }
                if skipping {
                    if l == end {
                        skipping = false;
                    }
                    continue;
                }
                if l.trim() == format!("v.push({mname}());") {
                    continue;
                }
                outl.push_str(l);
                outl.push('\n');
            }
            std::fs::write(sd.join("src/table.rs"), outl).ok();
        }
    }
    eprintln!("machinery: harness build did not converge");
    false
}

pub struct Merged {
    pub violations: Vec<(String, usize, serde_json::Value)>,
    pub counters: BTreeMap<String, u64>,
    pub samples: Vec<serde_json::Value>,
    pub deaths: Vec<String>,
}

fn run_task(h: &Harness, shard: usize, task: usize, prop: &str, tier: Tier, states: &[usize]) -> std::io::Result<std::process::Output> {
    let bin = format!("{}/release/shard_{shard:02}", h.target);
    let journal = h.dir.join(format!("journal_{shard:02}_{task}.txt"));
    let _ = std::fs::remove_file(&journal);
    let ids: Vec<String> = states.iter().map(|x| x.to_string()).collect();
    Command::new("sh")
        .arg("-c")
        .arg(format!(
            "ulimit -v 8000000; exec {bin} {} {} {prop} {} --journal {} --states {}",
            h.dir.join("states.json").display(),
            h.dir.join("owners.json").display(),
            tier_name(tier),
            journal.display(),
            ids.join(",")
        ))
        .env("RUST_BACKTRACE", "0")
        .output()
}

pub enum TaskResult {
    Done(serde_json::Value),
    Died { state: Option<usize>, how: String, journal: String },
    Machinery(String),
}

pub fn run_task_checked(h: &Harness, shard: usize, task: usize, prop: &str, tier: Tier, states: &[usize]) -> TaskResult {
    let o = match run_task(h, shard, task, prop, tier, states) {
        Ok(o) => o,
        Err(e) => return TaskResult::Machinery(format!("cannot run shard {shard}: {e}")),
    };
    let so = String::from_utf8_lossy(&o.stdout);
    let last = so.lines().last().unwrap_or("");
    if let Ok(v) = serde_json::from_str::<serde_json::Value>(last) {
        if v.get("watchdog").is_none() {
            return TaskResult::Done(v);
        }
    }
    let jpath = h.dir.join(format!("journal_{shard:02}_{task}.txt"));
    let journal = std::fs::read_to_string(&jpath).unwrap_or_default();
    let _ = std::fs::remove_file(&jpath);
    let sid: Option<usize> = journal.split_whitespace().next().and_then(|x| x.parse().ok());
    let stderr: String = String::from_utf8_lossy(&o.stderr).lines().filter(|l| !l.trim().is_empty()).last().unwrap_or("").chars().take(160).collect();
    let how = if so.contains("\"watchdog\"") { "no progress for 60 s".to_string() } else { format!("{:?} {}", o.status, stderr) };
    TaskResult::Died { state: sid, how, journal }
}

pub fn run_shards(h: &Harness, prop: &str, tier: Tier) -> Option<Merged> {
    // tasks: chunks of states of one shard; a task that dies (stack overflow, allocation failure,
    // watchdog) is re-run state by state; the death is a violation attributed to that state
    let excluded: BTreeSet<usize> = h.excluded.iter().map(|x| x.0).collect();
    let _ = excluded;
    let mut tasks: Vec<(usize, usize, Vec<usize>)> = vec![];
    for shard in 0..h.shards {
        let ids: Vec<usize> = h.states.iter().map(|s| s.id).filter(|id| id % h.shards == shard).collect();
        for (k, chunk) in ids.chunks(6).enumerate() {
            tasks.push((shard, k, chunk.to_vec()));
        }
    }
    let results: Vec<(Vec<serde_json::Value>, Vec<(usize, String, String)>, Vec<String>)> = tasks
        .par_iter()
        .map(|(shard, k, ids)| {
            let mut vals = vec![];
            let mut deaths = vec![];
            let mut mach = vec![];
            match run_task_checked(h, *shard, *k, prop, tier, ids) {
                TaskResult::Done(v) => vals.push(v),
                TaskResult::Machinery(m) => mach.push(m),
                TaskResult::Died { .. } => {
                    // isolate: one process per state
                    for id in ids {
                        match run_task_checked(h, *shard, *k, prop, tier, &[*id]) {
                            TaskResult::Done(v) => vals.push(v),
                            TaskResult::Machinery(m) => mach.push(m),
                            TaskResult::Died { how, journal, .. } => deaths.push((*id, how, journal)),
                        }
                    }
                }
            }
            (vals, deaths, mach)
        })
        .collect();
    let mut m = Merged { violations: vec![], counters: BTreeMap::new(), samples: vec![], deaths: vec![] };
    let mut by_sig: BTreeMap<String, (usize, serde_json::Value)> = BTreeMap::new();
    for (vals, deaths, mach) in results {
        for x in mach {
            m.deaths.push(x);
        }
        for (sid, how, journal) in deaths {
            let st = &h.states[sid];
            let inl = rules::inline_groups(&st.desc);
            let trig = inl.as_ref().map(death_triggers).unwrap_or_default();
            let how_n: String = how.chars().map(|c| if c.is_ascii_digit() { '#' } else { c }).collect();
            let sig = format!("process-death how={how_n} triggers={:?}", trig);
            let detail = json!({"state": sid, "family": st.family, "source": render::canonical(&st.desc), "journal": journal, "how": how});
            match by_sig.get_mut(&sig) {
                Some(e) => e.0 += 1,
                None => {
                    by_sig.insert(sig, (1, detail));
                }
            }
        }
        for v in vals {
            for x in v["violations"].as_array().cloned().unwrap_or_default() {
                let sig = x["sig"].as_str().unwrap_or("").to_string();
                let n = x["occurrences"].as_u64().unwrap_or(1) as usize;
                match by_sig.get_mut(&sig) {
                    Some(e) => e.0 += n,
                    None => {
                        by_sig.insert(sig, (n, x["detail"].clone()));
                    }
                }
            }
            if let Some(c) = v["counters"].as_object() {
                for (k, n) in c {
                    *m.counters.entry(k.clone()).or_default() += n.as_u64().unwrap_or(0);
                }
            }
            if m.samples.len() < 4 {
                for s in v["samples"].as_array().cloned().unwrap_or_default().into_iter().take(1) {
                    m.samples.push(s);
                }
            }
        }
    }
    m.violations = by_sig.into_iter().map(|(s, (n, d))| (s, n, d)).collect();
    Some(m)
}

/// trigger predicates for process deaths (unbounded recursion)
fn death_triggers(inl: &Desc) -> Vec<&'static str> {
    let mut t = vec![];
    for d in &inl.decls {
        if !d.is_struct() {
            continue;
        }
        // a struct that reaches itself through unsized arrays only, with nothing of fixed size
        // in front: decoding never consumes input
        fn reaches(d: &Desc, from: &str, to: &str, depth: usize) -> bool {
            if from == to {
                return true;
            }
            if depth > 6 {
                return false;
            }
            match d.get(from) {
                None => false,
                Some(x) => x.fields().iter().any(|f| match &f.kind {
                    FieldKind::Typedef { type_id, .. } | FieldKind::Array { elem: Elem::Type(type_id), .. } => reaches(d, type_id, to, depth + 1),
                    _ => false,
                }),
            }
        }
        let self_array = d.fields().iter().any(|f| matches!(&f.kind, FieldKind::Array { elem: Elem::Type(t2), .. } if reaches(inl, t2, &d.id, 0)));
        if self_array && !t.contains(&"struct-reaching-itself-through-an-array") {
            t.push("struct-reaching-itself-through-an-array");
        }
    }
    t
}

pub fn check(prop: &str, tier: Tier) -> i32 {
    check_on(prop, tier, None)
}

pub fn check_on(prop: &str, tier: Tier, only: Option<Vec<Selected>>) -> i32 {
    let mut ev = Evidence::new(prop, tier_name(tier));
    let t0 = std::time::Instant::now();
    let single = only.is_some();
    let mut h = prepare_on(tier, only);
    let t_prepare = t0.elapsed().as_secs_f64();
    if !build(&mut h) {
        return 2;
    }
    let t_build = t0.elapsed().as_secs_f64() - t_prepare;
    let merged = match run_shards(&h, prop, tier) {
        Some(m) => m,
        None => return 2,
    };
    eprintln!("phases: prepare={t_prepare:.1}s build={t_build:.1}s run={:.1}s", t0.elapsed().as_secs_f64() - t_prepare - t_build);
    if !merged.deaths.is_empty() {
        for d in &merged.deaths {
            eprintln!("machinery: {d}");
        }
        return 2;
    }
    let mut rep = Reporter::new(prop);
    rep.dry = single;
    for (sig, n, detail) in &merged.violations {
        for _ in 0..1 {
            rep.report(Violation { property: prop.into(), sig: sig.clone(), detail: detail.clone() });
        }
        if let Some(e) = rep.by_sig.get_mut(sig) {
            e.0 = *n;
        }
    }
    let mut extra_counters: BTreeMap<String, u64> = BTreeMap::new();
    if prop == "C17" {
        // the other three backends (out of process), see c17x.rs
        let excluded: BTreeSet<usize> = h.excluded.iter().map(|x| x.0).collect();
        if let Err(e) = crate::c17x::other_backends(tier, &h.states, &excluded, &mut rep, &mut extra_counters) {
            eprintln!("machinery: {e}");
            return 2;
        }
    }
    if prop == "C15" {
        // Python from_int over the same enum declarations (out of process), see c15x.rs
        if let Err(e) = crate::c15x::python_leg(tier, &h.states, &mut rep, &mut extra_counters) {
            eprintln!("machinery: {e}");
            return 2;
        }
    }
    ev.set("states", json!(h.explored_states));
    ev.set("transitions", json!(h.explored_transitions));
    ev.set("compiled_states", json!(h.states.len()));
    ev.set("compiled_modules", json!(h.modules - h.excluded.iter().filter(|x| x.2.starts_with("rustc")).count()));
    ev.set("modules_excluded", json!(h.excluded.iter().map(|(i, e, w)| json!({"state": i, "endianness": e, "why": w.chars().take(200).collect::<String>()})).collect::<Vec<_>>()));
    ev.set(
        "strata",
        json!(h.strata.iter().map(|(f, d, n, t)| json!({"family": f, "depth": d, "eligible": n, "compiled": t})).collect::<Vec<_>>()),
    );
    let capped = h.strata.iter().any(|(_, _, n, t)| t < n);
    ev.set("exhaustive", json!(!capped));
    ev.set("harness_build_s", json!(h.build_s));
    let mut counters: BTreeMap<String, u64> = merged.counters.clone();
    for (k, v) in extra_counters {
        *counters.entry(k).or_default() += v;
    }
    let validated: u64 = ["decode-inputs", "values", "parent-values", "child-values", "integers", "python-twin-values", "cxx-twin-values", "java-twin-values", "python-integers"].iter().map(|k| counters.get(*k).copied().unwrap_or(0)).sum();
    ev.set("traces_validated_against_impl", json!(validated));
    ev.set("outcomes", json!(counters));
    ev.set("samples", json!(merged.samples));
    ev.set("rule", json!(rule_text(prop)));
    ev.assumptions = assumptions(prop);
    let code = rep.finish(&mut ev);
    if single {
        return code;
    }
    let distinct = counters.iter().filter(|(k, v)| k.starts_with("outcome:") && **v > 0).count();
    ev.set("distinct_outcome_classes", json!(distinct));
    ev.write(&format!("{VERIF_DIR}/evidence"));
    if distinct < 2 {
        eprintln!("machinery error: exploration produced {distinct} outcome class(es)");
        return 2;
    }
    println!(
        "{prop} {}: explored_states={} compiled_states={} modules={} cases={} violations={} known={} build={:.1}s wall={:.1}s",
        tier_name(tier),
        h.explored_states,
        h.states.len(),
        h.modules,
        validated,
        ev.violations,
        ev.known,
        h.build_s,
        ev.start.elapsed().as_secs_f64()
    );
    let _ = norm_panic;
    code
}

fn rule_text(prop: &str) -> &'static str {
    match prop {
        "C01" => "states: the well-formed Rust-supported states of the explored graph (pruned of unused helper declarations; all up to the per-stratum cap, fixed stride beyond: see strata), both endiannesses, code regenerated by the real backend and compiled with overflow checks and debug assertions. Inputs per type: all strings over {00,01,02,03,7f,80,fe,ff} up to length 4 (5 thorough), all strings up to length 2 over the full alphabet for types whose smallest encoding is <= 2 bytes (length 1 otherwise), and for every explored value's reference encoding: every prefix, one appended byte, every single-byte substitution, every size/count/element-size/flag/enum/fixed/reserved bit-field overwritten with 0, 1, max-1, max and every power of two. Oracle: decode/decode_full/decode_mut never panic, remainder is a suffix by address, decode_mut leaves the slice on error, peak allocation <= 1 MiB + 64 x input; specialize and every parent->child TryFrom on every decoded parent never panic",
        "C18" => "same states and inputs as C01 plus all explored values (incl. failing ones): decode_full == decode with TrailingBytesError rule; decode_mut advances to exactly decode's remainder (pointer and length) and fails identically; encode_to_vec, encode_to_bytes, encode into a pre-filled Vec and BytesMut give identical bytes or identical errors and leave the prefix intact",
        "C02" => "for every type of a deterministically parseable description and every explored value on which the reference itself is a bijection: encode succeeds, decode_full(bytes) == value (JSON equality of the serde forms), and for every ancestor: decode_full as the ancestor then specialize() down the chain yields the value",
        "C03" => "for every type and every explored value the model can encode (base + single + pairwise deviations; ALL values for types whose variable part is <= 16 bits of scalars/enums): hex(encode_to_vec(v)) == hex(model.encode(v)); the first differing chunk is named",
        "C04" => "for every type of a deterministically parseable description and every input of the C01 input set (reduced: B-strings <= 3/4, 40 values' mutants): decode_full accepts iff the reference decoder accepts, with equal values; re-encoding an accepted input gives the canonical reference encoding; when the reference (collect mode) finds exactly one fault kind the DecodeError variant must name it",
        "C05" => "for every type and every explored value including out-of-range ones (2^w, backing max, one element/byte too many, unequal element sizes, contradictory flags): encode never panics, unrepresentable => the matching EncodeError variant, representable => Ok, and bytes written == encoded_len()",
        "C06" => "for every parent type of an unambiguous inheritance tree: parent values = every Ok decode of the input set + Parent::try_from(child value) for every explored child value; specialize() == model.specialize (child / Err / None, with the size rule); Child::try_from fails with ConstraintValueError iff the model finds a violated constraint; Parent::try_from(child) carries the constraint values, encodes to the child's bytes and converts back",
        "C15" => "for every enum of the compiled states: all integers of the backing type for backing types <= 16 bits, otherwise 0, max, 2^w, backing max, every power of two +-1 and x-1, x, x+1 around every tag value and range bound: TryFrom accepts iff the reference does, the variant is the named tag or the range/default variant carrying x, conversion back and every widening From give x. Python: Enum.from_int(x) of the generated module for every distinct enum declaration of those states the Python backend supports: all x < 2^w for w <= 12, boundary neighbourhoods beyond: accepted iff the reference accepts, a member exactly when a top-level tag has that value, the integer itself otherwise, an EnumValueError (DecodeError) when rejected",
        "C17" => "for every type and explored value: the little- and big-endian modules encode to the same length and the big-endian bytes equal the little-endian bytes with every chunk of the model's layout (bit-field group, multi-byte array element, optional scalar/enum, sized custom field) reversed. Python, C++ and Java: for every 6th (quick) / every (thorough) state of each backend's supported set the generated little- and big-endian code serializes every explored value out of process; same oracle on the backend's own bytes (the model contributes only the chunk map)",
        _ => "",
    }
}

fn assumptions(prop: &str) -> Vec<String> {
    let mut v = vec![
        "values cross the harness boundary as serde_json values of the generated types' own serde implementations".into(),
        "static arrays longer than 32 elements are outside the harness (serde)".into(),
    ];
    match prop {
        "C01" | "C18" => {}
        _ => v.push("the reference model mc/core/src/model.rs (validated against the repository's canonical test vectors by ./check model) is the trusted reading of doc/reference.md".into()),
    }
    v
}
