mod c07;
mod c11;
mod c15x;
mod c17x;
mod cxxgen;
mod drive;
mod front;
mod front2;
mod javagen;
mod pygen;
mod rustgen;

use pdlmc_core::graph::Tier;

fn usage() -> ! {
    eprintln!("usage: pdlmc check <C08|C09|C10|C12|C16> <quick|thorough>");
    eprintln!("       pdlmc states <quick|thorough>");
    eprintln!("       pdlmc show <file.pdl>");
    std::process::exit(2);
}

fn check_source(prop: &str, text: &str, tier: Tier) -> i32 {
    let run = drive::run_text_named(text, "t.pdl");
    let parsed = match &run.parsed {
        Some(p) => p,
        None => {
            eprintln!("the source does not parse: {:?}", run.outcome);
            return 2;
        }
    };
    let desc = drive::from_ast(parsed);
    let st = pdlmc_core::select::Selected { id: 0, family: "file".into(), depth: 9, desc };
    match prop {
        "C13" => pygen::check_on(tier, Some(vec![st])),
        "C14" => cxxgen::check_on(tier, Some(vec![st])),
        "C19" => javagen::check_on(tier, Some(vec![st])),
        p @ ("C01" | "C02" | "C03" | "C04" | "C05" | "C06" | "C15" | "C17" | "C18") => rustgen::check_on(p, tier, Some(vec![st])),
        _ => {
            eprintln!("single-source mode is available for the compiled engines (C01-C06, C13-C15, C17-C19); the front-end checks and C07 / C11 replay by re-running the deterministic check");
            2
        }
    }
}

fn main() {
    let args: Vec<String> = std::env::args().collect();
    if args.len() < 2 {
        usage();
    }
    drive::install_panic_hook();
    let tier_of = |s: &str| match s {
        "quick" => Tier::Quick,
        "thorough" => Tier::Thorough,
        _ => usage(),
    };
    match args[1].as_str() {
        "check" => {
            if args.len() < 4 {
                usage();
            }
            let tier = tier_of(&args[3]);
            let code = match args[2].as_str() {
                "C08" => front::check_c08(tier),
                "C09" => front::check_c09(tier),
                "C16" => front::check_c16(tier),
                "C10" => front2::check_c10(tier),
                "C12" => front2::check_c12(tier),
                "C07" => c07::check(tier),
                "C11" => c11::check(tier),
                "C13" => pygen::check(tier),
                "C14" => cxxgen::check(tier),
                "C19" => javagen::check(tier),
                p @ ("C01" | "C02" | "C03" | "C04" | "C05" | "C06" | "C15" | "C17" | "C18") => rustgen::check(p, tier),
                _ => usage(),
            };
            std::process::exit(code);
        }
        "states" => {
            let tier = tier_of(args.get(2).map(|s| s.as_str()).unwrap_or("quick"));
            front::print_states(tier);
        }
        "build-rust" => {
            let tier = tier_of(args.get(2).map(|s| s.as_str()).unwrap_or("quick"));
            let mut h = rustgen::prepare(tier);
            if !rustgen::build(&mut h) {
                std::process::exit(2);
            }
            println!("rust harness: {} states, {} modules, {} excluded, built in {:.1}s", h.states.len(), h.modules, h.excluded.len(), h.build_s);
        }
        "family-sizes" => {
            let tier = tier_of(args.get(2).map(|s| s.as_str()).unwrap_or("quick"));
            for f in pdlmc_core::graph::all_families() {
                println!("{}: {:?}", f.name, pdlmc_core::graph::level_sizes(f, tier, 3_000_000));
            }
        }
        "build-derive" => {
            let tier = tier_of(args.get(2).map(|s| s.as_str()).unwrap_or("quick"));
            if !c11::build_derive(tier) {
                std::process::exit(2);
            }
            println!("derive harnesses built");
        }
        "supported" => {
            let tier = tier_of(args.get(2).map(|s| s.as_str()).unwrap_or("quick"));
            front::print_supported(tier);
        }
        "check-source" => {
            // pdlmc check-source <C13|C14|C19> <file.pdl> [quick|thorough]: the property's engine
            // on the single description in the file (both byte orders); nothing is written
            let text = std::fs::read_to_string(&args[3]).expect("read");
            let tier = tier_of(args.get(4).map(|s| s.as_str()).unwrap_or("quick"));
            std::process::exit(check_source(&args[2], &text, tier));
        }
        "replay" => {
            // pdlmc replay <replays/Cxx-....json>: re-run the property's engine on the source of
            // the recorded violation, twice, and compare the verdicts
            let j: serde_json::Value = serde_json::from_str(&std::fs::read_to_string(&args[2]).expect("read replay file")).expect("replay file is not JSON");
            let prop = j["property"].as_str().unwrap_or("").to_string();
            let sig = j["signature"].as_str().unwrap_or("").to_string();
            let src = j["detail"]["state"]["source"].as_str().or(j["detail"]["source"].as_str()).or(j["detail"]["state"]["state"]["source"].as_str()).unwrap_or("").to_string();
            if src.is_empty() {
                eprintln!("replay: the file records no source text");
                std::process::exit(2);
            }
            println!("replaying property={prop}\n  recorded signature: {sig}\n  source:\n{src}");
            let a = check_source(&prop, &src, Tier::Quick);
            let b = check_source(&prop, &src, Tier::Quick);
            if a != b {
                eprintln!("replay: two runs disagree ({a} vs {b}): machinery error");
                std::process::exit(2);
            }
            std::process::exit(a);
        }
        "gen" => {
            // pdlmc gen <json|rust|python|cxx|java> <file.pdl> [java out dir]
            let text = std::fs::read_to_string(&args[3]).expect("read");
            let run = drive::run_text_named(&text, "t.pdl");
            if run.outcome != drive::Outcome::Accepted {
                eprintln!("{:?}", run.outcome);
                std::process::exit(1);
            }
            let b = match args[2].as_str() {
                "json" => drive::Backend::Json,
                "rust" => drive::Backend::Rust,
                "python" => drive::Backend::Python,
                "cxx" => drive::Backend::Cxx,
                "java" => drive::Backend::Java,
                _ => usage(),
            };
            let dir = args.get(4).map(std::path::PathBuf::from);
            match drive::generate(b, &run, dir.as_deref()) {
                Ok(s) => print!("{s}"),
                Err(e) => {
                    eprintln!("generator failed: {e}");
                    std::process::exit(1);
                }
            }
        }
        "show" => {
            let text = std::fs::read_to_string(&args[2]).expect("read");
            let run = drive::run_text(&text);
            println!("{:?}", run.outcome);
            if let Some(p) = &run.parsed {
                let d = drive::from_ast(p);
                println!("rules: {:#?}", pdlmc_core::rules::rules(&d));
            }
        }
        _ => usage(),
    }
}
