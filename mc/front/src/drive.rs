//! Drives the real pdl-compiler in-process: parse -> analyze -> backends, every stage under
//! catch_unwind, and converts its ASTs back to the explorer's IR.

use pdl_compiler::{analyzer, ast, backends, parser};
use pdlmc_core::ir::*;
use std::cell::RefCell;
use std::panic::{catch_unwind, AssertUnwindSafe};

thread_local! {
    static LAST_PANIC: RefCell<Option<String>> = const { RefCell::new(None) };
    static IN_GUARD: std::cell::Cell<u32> = const { std::cell::Cell::new(0) };
}

pub fn install_panic_hook() {
    std::panic::set_hook(Box::new(|info| {
        let loc = info.location().map(|l| format!("{}:{}", l.file(), l.line())).unwrap_or_default();
        let msg = if let Some(s) = info.payload().downcast_ref::<&str>() {
            s.to_string()
        } else if let Some(s) = info.payload().downcast_ref::<String>() {
            s.clone()
        } else {
            "<non-string panic>".to_string()
        };
        // a panic outside `guarded` is a bug of the machinery itself: say so
        if IN_GUARD.with(|g| g.get()) == 0 {
            eprintln!("machinery panic: {msg} @ {loc}");
        }
        LAST_PANIC.with(|p| *p.borrow_mut() = Some(format!("{msg} @ {loc}")));
    }));
}

pub fn guarded<T>(f: impl FnOnce() -> T) -> Result<T, String> {
    LAST_PANIC.with(|p| *p.borrow_mut() = None);
    IN_GUARD.with(|g| g.set(g.get() + 1));
    let r = catch_unwind(AssertUnwindSafe(f));
    IN_GUARD.with(|g| g.set(g.get() - 1));
    match r {
        Ok(v) => Ok(v),
        Err(_) => Err(LAST_PANIC.with(|p| p.borrow_mut().take()).unwrap_or_else(|| "<panic>".into())),
    }
}

#[derive(Debug, Clone, PartialEq, Eq)]
pub enum Outcome {
    ParsePanic(String),
    ParseErr(String),
    AnalyzePanic(String),
    AnalyzeErr { codes: Vec<String>, problems: Vec<String> },
    Accepted,
}

pub struct Run {
    pub outcome: Outcome,
    pub sources: ast::SourceDatabase,
    pub parsed: Option<ast::File>,
    pub analyzed: Option<ast::File>,
}

/// Check that the diagnostics are renderable and that their labels lie inside the file.
fn check_diagnostics(diags: &analyzer::Diagnostics, sources: &ast::SourceDatabase, text: &str) -> Vec<String> {
    let mut problems = vec![];
    for d in &diags.diagnostics {
        if d.code.is_none() {
            problems.push("diagnostic without a code".to_string());
        }
        if d.labels.is_empty() {
            problems.push(format!("diagnostic {:?} has no label", d.code));
        }
        for l in &d.labels {
            if sources.get(l.file_id).is_err() {
                problems.push(format!("label with unknown file id {}", l.file_id));
            }
            let (s, e) = (l.range.start, l.range.end);
            if !(s <= e && e <= text.len()) {
                problems.push(format!("label range {s}..{e} outside the file (len {})", text.len()));
            } else if !text.is_char_boundary(s) || !text.is_char_boundary(e) {
                problems.push(format!("label range {s}..{e} not on char boundaries"));
            }
        }
    }
    let r = guarded(|| {
        let mut buf = codespan_reporting::term::termcolor::Buffer::no_color();
        diags.emit(sources, &mut buf).map(|_| buf.into_inner().len())
    });
    match r {
        Ok(Ok(n)) => {
            if n == 0 {
                problems.push("diagnostics rendered to nothing".to_string());
            }
        }
        Ok(Err(e)) => problems.push(format!("emit failed: {e}")),
        Err(p) => problems.push(format!("emit panicked: {p}")),
    }
    problems
}

pub fn run_text(text: &str) -> Run {
    run_text_named(text, "stdin")
}

pub fn run_text_named(text: &str, name: &str) -> Run {
    let mut sources = ast::SourceDatabase::new();
    let parsed = guarded(|| parser::parse_inline(&mut sources, name, text.to_string()));
    let file = match parsed {
        Err(p) => return Run { outcome: Outcome::ParsePanic(p), sources, parsed: None, analyzed: None },
        Ok(Err(d)) => {
            return Run { outcome: Outcome::ParseErr(d.message.clone()), sources, parsed: None, analyzed: None }
        }
        Ok(Ok(f)) => f,
    };
    let analyzed = guarded(|| analyzer::analyze(&file));
    match analyzed {
        Err(p) => Run { outcome: Outcome::AnalyzePanic(p), sources, parsed: Some(file), analyzed: None },
        Ok(Err(diags)) => {
            let mut codes: Vec<String> = diags.diagnostics.iter().filter_map(|d| d.code.clone()).collect();
            codes.sort();
            codes.dedup();
            let problems = check_diagnostics(&diags, &sources, text);
            Run { outcome: Outcome::AnalyzeErr { codes, problems }, sources, parsed: Some(file), analyzed: None }
        }
        Ok(Ok(a)) => Run { outcome: Outcome::Accepted, sources, parsed: Some(file), analyzed: Some(a) },
    }
}

pub fn analyze_ast(file: &ast::File) -> Result<Result<ast::File, Vec<String>>, String> {
    guarded(|| match analyzer::analyze(file) {
        Ok(f) => Ok(f),
        Err(d) => Err(d.diagnostics.iter().filter_map(|d| d.code.clone()).collect()),
    })
}

// ------------------------------------------------------------------ ast -> IR

fn conv_constraint(c: &ast::Constraint) -> Constraint {
    Constraint {
        id: c.id.clone(),
        val: match (&c.value, &c.tag_id) {
            (Some(v), _) => CVal::Int(*v as u64),
            (None, Some(t)) => CVal::Tag(t.clone()),
            _ => CVal::Tag("<none>".into()),
        },
    }
}

fn conv_mod(m: &Option<String>) -> Option<u64> {
    m.as_ref().map(|s| s.trim_start_matches('+').parse::<u64>().unwrap_or(u64::MAX))
}

pub fn conv_field(f: &ast::Field) -> Field {
    use ast::FieldDesc as D;
    let kind = match &f.desc {
        D::Checksum { field_id } => FieldKind::Checksum { field_id: field_id.clone() },
        D::Padding { size } => FieldKind::Padding { size: *size as u64 },
        D::Size { field_id, width } => FieldKind::Size { field_id: field_id.clone(), width: *width as u64 },
        D::Count { field_id, width } => FieldKind::Count { field_id: field_id.clone(), width: *width as u64 },
        D::ElementSize { field_id, width } => {
            FieldKind::ElementSize { field_id: field_id.clone(), width: *width as u64 }
        }
        D::Body => FieldKind::Body,
        D::Payload { size_modifier } => FieldKind::Payload { modifier: conv_mod(size_modifier) },
        D::FixedScalar { width, value } => FieldKind::FixedScalar { width: *width as u64, value: *value as u64 },
        D::FixedEnum { enum_id, tag_id } => FieldKind::FixedEnum { enum_id: enum_id.clone(), tag_id: tag_id.clone() },
        D::Reserved { width } => FieldKind::Reserved { width: *width as u64 },
        D::Array { id, width, type_id, size_modifier, size } => FieldKind::Array {
            id: id.clone(),
            elem: match (width, type_id) {
                (Some(w), _) => Elem::Width(*w as u64),
                (None, Some(t)) => Elem::Type(t.clone()),
                _ => Elem::Type("<none>".into()),
            },
            shape: match (size, size_modifier) {
                (Some(n), _) => Shape::Static(*n as u64),
                (None, Some(m)) => Shape::Modifier(conv_mod(&Some(m.clone())).unwrap()),
                _ => Shape::Unsized,
            },
        },
        D::Scalar { id, width } => FieldKind::Scalar { id: id.clone(), width: *width as u64 },
        D::Flag { id, .. } => FieldKind::Scalar { id: id.clone(), width: 1 },
        D::Typedef { id, type_id } => FieldKind::Typedef { id: id.clone(), type_id: type_id.clone() },
        D::Group { group_id, constraints } => FieldKind::Group {
            group_id: group_id.clone(),
            constraints: constraints.iter().map(conv_constraint).collect(),
        },
    };
    Field { kind, cond: f.cond.as_ref().map(conv_constraint) }
}

pub fn conv_decl(d: &ast::Decl) -> Option<Decl> {
    use ast::DeclDesc as D;
    let (id, kind) = match &d.desc {
        D::Checksum { id, function, width } => {
            (id.clone(), DeclKind::Checksum { width: *width as u64, function: function.clone() })
        }
        D::CustomField { id, width, function } => {
            (id.clone(), DeclKind::Custom { width: width.map(|w| w as u64), function: function.clone() })
        }
        D::Enum { id, tags, width } => (
            id.clone(),
            DeclKind::Enum {
                width: *width as u64,
                tags: tags
                    .iter()
                    .map(|t| match t {
                        ast::Tag::Value(v) => Tag::Value { id: v.id.clone(), value: v.value as u64 },
                        ast::Tag::Range(r) => Tag::Range {
                            id: r.id.clone(),
                            lo: *r.range.start() as u64,
                            hi: *r.range.end() as u64,
                            tags: r.tags.iter().map(|v| (v.id.clone(), v.value as u64)).collect(),
                        },
                        ast::Tag::Other(o) => Tag::Other { id: o.id.clone() },
                    })
                    .collect(),
            },
        ),
        D::Packet { id, constraints, fields, parent_id } => (
            id.clone(),
            DeclKind::Packet {
                parent: parent_id.clone(),
                constraints: constraints.iter().map(conv_constraint).collect(),
                fields: fields.iter().map(conv_field).collect(),
            },
        ),
        D::Struct { id, constraints, fields, parent_id } => (
            id.clone(),
            DeclKind::Struct {
                parent: parent_id.clone(),
                constraints: constraints.iter().map(conv_constraint).collect(),
                fields: fields.iter().map(conv_field).collect(),
            },
        ),
        D::Group { id, fields } => (id.clone(), DeclKind::Group { fields: fields.iter().map(conv_field).collect() }),
        D::Test { .. } => return None,
    };
    Some(Decl { id, kind })
}

pub fn from_ast(f: &ast::File) -> Desc {
    Desc {
        endian: match f.endianness.value {
            ast::EndiannessValue::LittleEndian => Endian::Little,
            ast::EndiannessValue::BigEndian => Endian::Big,
        },
        decls: f.declarations.iter().filter_map(conv_decl).collect(),
    }
}

// ------------------------------------------------------------------ backends

#[derive(Debug, Clone, Copy, PartialEq, Eq, Hash, PartialOrd, Ord)]
pub enum Backend {
    Json,
    Rust,
    Python,
    Cxx,
    Java,
}

impl Backend {
    pub fn name(&self) -> &'static str {
        match self {
            Backend::Json => "json",
            Backend::Rust => "rust",
            Backend::Python => "python",
            Backend::Cxx => "cxx",
            Backend::Java => "java",
        }
    }
}

/// Run one backend on an analyzed file. Java output is the concatenation of the generated files
/// (sorted by path).
pub fn generate(b: Backend, run: &Run, java_dir: Option<&std::path::Path>) -> Result<String, String> {
    let parsed = run.parsed.as_ref().unwrap();
    let analyzed = run.analyzed.as_ref().unwrap();
    let sources = &run.sources;
    match b {
        Backend::Json => guarded(|| backends::json::generate(parsed).map_err(|e| e.to_string()))?,
        Backend::Rust => guarded(|| backends::rust::generate(sources, analyzed, &[])),
        Backend::Python => guarded(|| backends::python::generate(sources, analyzed, None, &[])),
        Backend::Cxx => guarded(|| backends::cxx::generate(sources, analyzed, None, &[], &[], &[])),
        Backend::Java => {
            let dir = java_dir.expect("java needs an output dir");
            let _ = std::fs::remove_dir_all(dir);
            std::fs::create_dir_all(dir).map_err(|e| e.to_string())?;
            guarded(|| backends::java::generate(sources, analyzed, &[], dir, "pkg"))??;
            let mut files: Vec<_> = walk(dir);
            files.sort();
            let mut out = String::new();
            for f in files {
                out.push_str(&format!("// FILE {}\n", f.strip_prefix(dir).unwrap().display()));
                out.push_str(&std::fs::read_to_string(&f).unwrap_or_default());
            }
            Ok(out)
        }
    }
}

fn walk(dir: &std::path::Path) -> Vec<std::path::PathBuf> {
    let mut out = vec![];
    if let Ok(rd) = std::fs::read_dir(dir) {
        for e in rd.flatten() {
            let p = e.path();
            if p.is_dir() {
                out.extend(walk(&p));
            } else {
                out.push(p);
            }
        }
    }
    out
}
