//! C17 for the Python, C++ and Java backends (the Rust leg runs inside the harness): for a
//! strided subset of the states each backend supports, every explored value is serialized by
//! the little- and the big-endian flavour of the generated code; the two byte strings must have
//! equal length and the big-endian one must be the little-endian one with every chunk of the
//! reference *layout* reversed. Only the chunk map (where groups / words / byte runs lie) comes
//! from the model; the bytes compared are the backend's own.

use crate::c07::{legs, Ser, StateOps, TypeOps, Which};
use crate::front::tier_name;
use pdlmc_core::graph::Tier;
use pdlmc_core::ir::*;
use pdlmc_core::model::{self, Model, Val};
use pdlmc_core::render;
use pdlmc_core::report::{Reporter, Violation};
use pdlmc_core::rules;
use pdlmc_core::select::Selected;
use pdlmc_core::support::{unsupported, Lang};
use pdlmc_core::values::{Budget, ValueGen};
use serde_json::json;
use std::collections::BTreeMap;

pub fn other_backends(tier: Tier, all: &[Selected], excluded: &std::collections::BTreeSet<usize>, rep: &mut Reporter, counters: &mut BTreeMap<String, u64>) -> Result<(), String> {
    let thorough = tier == Tier::Thorough;
    let stride: usize = std::env::var("PDLMC_C17_STRIDE").ok().and_then(|s| s.parse().ok()).unwrap_or(if thorough { 24 } else { 6 });
    // per backend: every stride-th state of its own supported set (different offsets so that
    // the three subsets overlap as little as possible)
    let mut which_of: BTreeMap<usize, Which> = BTreeMap::new();
    for (k, lang) in [Lang::Python, Lang::Cxx, Lang::Java].into_iter().enumerate() {
        let mut n = 0usize;
        for st in all {
            if excluded.contains(&st.id) {
                continue;
            }
            let inl = match rules::inline_groups(&st.desc) {
                Some(i) => i,
                None => continue,
            };
            if unsupported(lang, &inl).is_some() {
                continue;
            }
            if n % stride.max(1) == (k * 2) % stride.max(1) {
                let w = which_of.entry(st.id).or_insert(Which { python: false, cxx: false, java: false });
                match lang {
                    Lang::Python => w.python = true,
                    Lang::Cxx => w.cxx = true,
                    _ => w.java = true,
                }
            }
            n += 1;
        }
    }
    let states: Vec<&Selected> = all.iter().filter(|s| which_of.contains_key(&s.id)).collect();
    // operations: values only
    let mut ops_by_state: BTreeMap<usize, StateOps> = BTreeMap::new();
    for st in &states {
        let mut so = StateOps { le: vec![], be: vec![] };
        for big in [false, true] {
            let d = st.desc.with_endian(if big { Endian::Big } else { Endian::Little });
            let inl = match rules::inline_groups(&d) {
                Some(i) => i,
                None => continue,
            };
            let m = Model::new(&inl);
            let vg = ValueGen { m: &m, budget: if thorough { Budget { max_values: 400, pairs: true, nested_alts: 4, max_array_len: 300 } } else { Budget { max_values: 60, pairs: true, nested_alts: 3, max_array_len: 20 } } };
            let mut tops = vec![];
            for decl in inl.decls.iter().filter(|d| d.is_pkt_or_struct() && crate::front::encodable(&inl, &d.id)) {
                let values: Vec<Val> = vg.values(&decl.id).ok.into_iter().filter(|v| m.encode(&decl.id, v).is_ok() && !crate::cxxgen::empty_elementsize_array(&m, &decl.id, v)).collect();
                tops.push(TypeOps { name: decl.id.clone(), is_struct: decl.is_struct(), values, inputs: vec![], rust_enc: vec![], rust_dec: vec![] });
            }
            if big {
                so.be = tops
            } else {
                so.le = tops
            }
        }
        ops_by_state.insert(st.id, so);
    }
    let l = legs("c17", tier, &states, &ops_by_state, &|s: &Selected| which_of.get(&s.id).copied().unwrap_or(Which { python: false, cxx: false, java: false }))?;
    for (name, leg) in [("python", &l.py), ("cxx", &l.cx), ("java", &l.jv)] {
        for st in &states {
            let so = &ops_by_state[&st.id];
            let d = st.desc.with_endian(Endian::Little);
            let inl = match rules::inline_groups(&d) {
                Some(i) => i,
                None => continue,
            };
            let m = Model::new(&inl);
            for t in &so.le {
                let (le, be) = match (leg.get(&(st.id, false, t.name.clone())), leg.get(&(st.id, true, t.name.clone()))) {
                    (Some(a), Some(b)) => (&a.0, &b.0),
                    _ => continue,
                };
                for (i, v) in t.values.iter().enumerate() {
                    let (a, b) = match (le.get(i), be.get(i)) {
                        (Some(Ser::Bytes(a)), Some(Ser::Bytes(b))) => (a, b),
                        _ => continue, // an encoder that fails is C13 / C14 / C19 business
                    };
                    *counters.entry(format!("{name}-twin-values")).or_default() += 1;
                    let layout = match m.encode(&t.name, v) {
                        Ok(e) => e,
                        Err(_) => continue,
                    };
                    let verdict = if a.len() != b.len() {
                        Some("lengths-differ")
                    } else if a != &layout.bytes {
                        // the chunk map describes the reference encoding; where the backend's
                        // little-endian bytes are something else (a conformance matter of C13 /
                        // C14 / C19) it cannot be applied
                        *counters.entry(format!("{name}-twins-layout-not-applicable")).or_default() += 1;
                        None
                    } else {
                        let swapped = model::swap_chunks(&model::Enc { bytes: a.clone(), chunks: layout.chunks.clone() });
                        if &swapped != b {
                            Some("big-endian-bytes-are-not-the-chunkwise-reversal")
                        } else {
                            None
                        }
                    };
                    match verdict {
                        None => *counters.entry(format!("outcome:{name}-twins-dual")).or_default() += 1,
                        Some(what) => {
                            *counters.entry(format!("outcome:{name}-twins-not-dual")).or_default() += 1;
                            let pos = a.iter().zip(b.iter()).position(|(x, y)| x != y).unwrap_or(0);
                            let _ = pos;
                            rep.report(Violation {
                                property: "C17".into(),
                                sig: format!("{what} backend={name} kind={}", if t.is_struct { "struct" } else { "packet" }),
                                detail: json!({"state": {"state": st.id, "family": st.family, "type": t.name, "source": render::canonical(&d)}, "value": v.to_json(), "little": model::hex(a), "big": model::hex(b), "backend": name}),
                            });
                        }
                    }
                }
            }
        }
    }
    *counters.entry("other-backends-states".into()).or_default() += states.len() as u64;
    let _ = tier_name(tier);
    Ok(())
}
