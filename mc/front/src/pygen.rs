//! The `py` engine (C13): generated Python modules driven through drivers/pydrv.py; every
//! oracle is evaluated here against the reference model.

use crate::drive::{self, Backend, Outcome};
use crate::front::{explore, tier_name};
use pdlmc_core::classes;
use pdlmc_core::evidence::Evidence;
use pdlmc_core::graph::Tier;
use pdlmc_core::ir::*;
use pdlmc_core::model::{self, ElemTy, Model, Val};
use pdlmc_core::render;
use pdlmc_core::report::{Reporter, Violation, VERIF_DIR};
use pdlmc_core::rules;
use pdlmc_core::select::{self, Selected};
use pdlmc_core::support::Lang;
use pdlmc_core::values::{self, Budget, ValueGen};
use rayon::prelude::*;
use serde_json::{json, Value as J};
use std::collections::{BTreeMap, BTreeSet};
use std::path::PathBuf;
use std::process::Command;

fn py_elem(m: &Model, ety: &ElemTy, v: &Val) -> String {
    match ety {
        ElemTy::Scalar(_) | ElemTy::Custom(_, _) => v.int().to_string(),
        ElemTy::Enum(e, _) => format!("_E({e}, {})", v.int()),
        ElemTy::Struct(s) => py_expr(m, s, v),
        ElemTy::Unsupported => "None".into(),
    }
}

/// Python constructor expression for a model value
pub fn py_expr(m: &Model, ty: &str, v: &Val) -> String {
    let rec = v.rec();
    let mut args: Vec<String> = vec![];
    for (_, f) in m.data_fields(ty) {
        let id = f.id().unwrap();
        let x = match rec.get(id) {
            Some(x) => x,
            None => continue,
        };
        let inner = |x: &Val| -> String {
            match &f.kind {
                FieldKind::Scalar { .. } => x.int().to_string(),
                FieldKind::Typedef { type_id, .. } => py_elem(m, &m.elem_ty(&Elem::Type(type_id.clone())), x),
                FieldKind::Array { elem, .. } => {
                    let ety = m.elem_ty(elem);
                    match x {
                        Val::Arr(a) => format!("[{}]", a.iter().map(|e| py_elem(m, &ety, e)).collect::<Vec<_>>().join(", ")),
                        Val::Bytes(b) => format!("[{}]", b.iter().map(|e| e.to_string()).collect::<Vec<_>>().join(", ")),
                        _ => "[]".into(),
                    }
                }
                _ => "None".into(),
            }
        };
        let e = if f.cond.is_some() {
            match x {
                Val::Opt(None) => "None".to_string(),
                Val::Opt(Some(i)) => inner(i),
                _ => "None".into(),
            }
        } else {
            inner(x)
        };
        args.push(format!("{id}={e}"));
    }
    if m.decl(ty).payload().is_some() {
        if let Some(Val::Bytes(b)) = rec.get("payload") {
            args.push(format!("payload=bytes([{}])", b.iter().map(|e| e.to_string()).collect::<Vec<_>>().join(", ")));
        }
    }
    format!("{ty}({})", args.join(", "))
}

/// The declarations the Python backend dispatches to from `id`: its children, with alias
/// children (no fields of their own besides a payload) replaced by *their* children
/// (documented design of the Python backend: aliases are transparent).
fn dispatch_children(m: &Model, id: &str) -> Vec<Vec<String>> {
    let mut out = vec![];
    for c in m.d.children(id) {
        let is_alias = c.fields().iter().all(|f| f.is_payload());
        if is_alias {
            for mut path in dispatch_children(m, &c.id) {
                path.insert(0, c.id.clone());
                out.push(path);
            }
        } else {
            out.push(vec![c.id.clone()]);
        }
    }
    out
}

/// What the reference expects `Root.parse_all(b)` to return: the most derived non-alias
/// declaration reached by repeatedly taking the (single) dispatch child whose constraints hold
/// and whose fields consume the payload exactly. None = two children fit (no single answer).
pub fn expected_parse(m: &Model, root: &str, b: &[u8]) -> Option<Result<(String, Val), BTreeSet<model::Fault>>> {
    let v = match m.decode_full(root, b) {
        Ok(v) => v,
        Err(f) => return Some(Err(f)),
    };
    let mut cur_ty = root.to_string();
    let mut cur = v;
    loop {
        let mut fits: Vec<(String, Val)> = vec![];
        for path in dispatch_children(m, &cur_ty) {
            let mut val = cur.clone();
            let mut ok = true;
            for step in &path {
                let mut faults = BTreeSet::new();
                match m.decode_partial(step, &val, &mut faults) {
                    Some(cv) if faults.is_empty() => val = cv,
                    _ => {
                        ok = false;
                        break;
                    }
                }
            }
            if ok {
                fits.push((path.last().unwrap().clone(), val));
            }
        }
        match fits.len() {
            0 => return Some(Ok((cur_ty, cur))),
            1 => {
                let (c, cv) = fits.pop().unwrap();
                cur_ty = c;
                cur = cv;
            }
            _ => return None,
        }
    }
}

/// compare the model value with the driver's JSON, on the model's keys
pub fn value_matches(want: &Val, got: &J) -> bool {
    match (want, got) {
        (Val::Int(a), J::Number(n)) => n.as_u64() == Some(*a),
        (Val::Bytes(a), J::Array(b)) => a.len() == b.len() && a.iter().zip(b).all(|(x, y)| y.as_u64() == Some(*x as u64)),
        (Val::Arr(a), J::Array(b)) => a.len() == b.len() && a.iter().zip(b).all(|(x, y)| value_matches(x, y)),
        (Val::Opt(None), J::Null) => true,
        (Val::Opt(Some(a)), g) if !g.is_null() => value_matches(a, g),
        (Val::Rec(a), J::Object(o)) => a.iter().all(|(k, v)| match o.get(k) {
            Some(g) => value_matches(v, g),
            None => matches!(v, Val::Bytes(b) if b.is_empty()) && k == "payload",
        }),
        _ => false,
    }
}

struct Task {
    st: Selected,
    big: bool,
    inl: Desc,
    id: String,
    parse: Vec<(String, Vec<Vec<u8>>)>,
    build: Vec<(String, Vec<Val>)>,
}

pub fn check(tier: Tier) -> i32 {
    check_on(tier, None)
}

/// `only`: run on exactly these states (single-source / replay mode: no evidence or replay file
/// is written) instead of the explored and selected ones.
pub fn check_on(tier: Tier, only: Option<Vec<Selected>>) -> i32 {
    let mut ev = Evidence::new("C13", tier_name(tier));
    let single = only.is_some();
    let (e, sel) = match only {
        Some(states) => (pdlmc_core::graph::Explored::default(), select::Selection { states, strata: vec![] }),
        None => {
            let e = explore(tier);
            let sel = select::select(&e, tier, Lang::Python, &|_, _| true);
            (e, sel)
        }
    };
    let root = PathBuf::from(format!("{VERIF_DIR}/work/py_{}", tier_name(tier)));
    let _ = std::fs::remove_dir_all(&root);
    std::fs::create_dir_all(&root).expect("mkdir");
    let thorough = tier == Tier::Thorough;
    // one pipeline per (state, endianness): generate the module, enumerate inputs and values, run
    // the driver on it, evaluate the oracles, drop everything (bounded memory)
    // resolve the interpreter once (a pyenv shim costs 0.3 s per start and serialises under load)
    let python: String = Command::new("python3")
        .args(["-c", "import sys; print(sys.executable)"])
        .output()
        .ok()
        .map(|o| String::from_utf8_lossy(&o.stdout).trim().to_string())
        .filter(|s| !s.is_empty())
        .unwrap_or_else(|| "python3".to_string());
    let limit: usize = std::env::var("PDLMC_LIMIT").ok().and_then(|s| s.parse().ok()).unwrap_or(usize::MAX);
    // thorough: every 2nd of the ~10^4 selected states (the selection itself is 8x the quick one)
    let py_stride: usize = std::env::var("PDLMC_PY_STRIDE").ok().and_then(|s| s.parse().ok()).unwrap_or(if thorough && !single { 32 } else { 1 });
    let jobs: Vec<(&Selected, bool)> = sel.states.iter().step_by(py_stride.max(1)).take(limit).flat_map(|s| [(s, false), (s, true)]).collect();
    let t_gen = std::sync::atomic::AtomicU64::new(0);
    let t_py = std::sync::atomic::AtomicU64::new(0);
    let t_or = std::sync::atomic::AtomicU64::new(0);
    // thorough result documents are large (up to 1e4 parsed objects with 300-element arrays per
    // root): at most 6 states in flight
    let pool = rayon::ThreadPoolBuilder::new().num_threads(if thorough { 6 } else { 16 }).build().expect("thread pool");
    let per_task: Vec<(Reporter, BTreeMap<String, usize>, Option<J>)> = pool.install(|| jobs
        .par_iter()
        .map(|(st, big)| {
            let big = *big;
            let t0 = std::time::Instant::now();
            let mut rep = Reporter::new("C13");
            let mut c: BTreeMap<String, usize> = BTreeMap::new();
            let d = st.desc.with_endian(if big { Endian::Big } else { Endian::Little });
            let text = render::canonical(&d);
            let run = drive::run_text_named(&text, "t.pdl");
            let inl = match rules::inline_groups(&d) {
                Some(i) => i,
                None => return (rep, c, None),
            };
            let code = match &run.outcome {
                Outcome::Accepted => drive::generate(Backend::Python, &run, None),
                o => Err(format!("not accepted: {o:?}")),
            };
            let id = format!("m{}_{}", st.id, if big { "be" } else { "le" });
            let code = match code {
                Ok(c) => c,
                Err(_) => {
                    *c.entry("modules-not-generated".into()).or_default() += 1;
                    return (rep, c, None); // generator panics are C10's business
                }
            };
            std::fs::write(root.join(format!("{id}.py")), code).expect("write module");
            let m = Model::new(&inl);
            let mut parse: Vec<(String, Vec<Vec<u8>>)> = vec![];
            let mut build: Vec<(String, Vec<Val>)> = vec![];
            for decl in &inl.decls {
                if !decl.is_pkt_or_struct() || !crate::front::encodable(&inl, &decl.id) {
                    continue;
                }
                let vg = ValueGen { m: &m, budget: if thorough { Budget { max_values: 400, pairs: true, nested_alts: 4, max_array_len: 300 } } else { Budget { max_values: 60, pairs: true, nested_alts: 3, max_array_len: 20 } } };
                let vals: Vec<Val> = vg.values(&decl.id).ok.into_iter().filter(|v| m.encode(&decl.id, v).is_ok()).collect();
                build.push((decl.id.clone(), vals));
                if decl.parent().is_none() && classes::deterministic(&inl, &decl.id).is_ok() && tree_deterministic(&inl, &decl.id) {
                    let mut inputs = values::input_set(&m, &decl.id, big, thorough, if thorough { 200 } else { 8 });
                    for desc_ty in descendants(&inl, &decl.id) {
                        if !crate::front::encodable(&inl, &desc_ty) {
                            continue;
                        }
                        for v in vg.values(&desc_ty).ok.iter().take(if thorough { 100 } else { 5 }) {
                            if let Ok(enc) = m.encode(&desc_ty, v) {
                                if enc.bytes.len() <= 2048 {
                                    inputs.push(enc.bytes.clone());
                                    values::for_all_mutants(&enc, big, &mut |b: &[u8]| {
                                        if inputs.len() < (if thorough { 12000 } else { 5000 }) {
                                            inputs.push(b.to_vec())
                                        }
                                    });
                                }
                            }
                        }
                    }
                    inputs.sort();
                    inputs.dedup();
                    parse.push((decl.id.clone(), inputs));
                }
            }
            let t = Task { st: (*st).clone(), big, inl: inl.clone(), id: id.clone(), parse, build };
            let task = json!([{
                "module": root.join(format!("{}.py", t.id)),
                "id": t.id,
                "parse": t.parse.iter().map(|(ty, ins)| json!({"type": ty, "inputs": ins.iter().map(|b| model::hex(b)).collect::<Vec<_>>()})).collect::<Vec<_>>(),
                "build": t.build.iter().map(|(ty, vals)| json!({"type": ty, "exprs": vals.iter().map(|v| py_expr(&m, ty, v)).collect::<Vec<_>>()})).collect::<Vec<_>>(),
            }]);
            let tf = root.join(format!("{id}.task.json"));
            let rf = root.join(format!("{id}.result.jsonl"));
            std::fs::write(&tf, serde_json::to_string(&task).unwrap()).expect("write task");
            drop(task);
            t_gen.fetch_add(t0.elapsed().as_millis() as u64, std::sync::atomic::Ordering::Relaxed);
            let t1 = std::time::Instant::now();
            let status = Command::new("timeout")
                .arg(if thorough { "7200" } else { "1800" })
                .arg(&python)
                .arg(format!("{VERIF_DIR}/drivers/pydrv.py"))
                .arg(&tf)
                .arg(&rf)
                .env("PYTHONDONTWRITEBYTECODE", "1")
                .status();
            let result: Option<J> = std::fs::read_to_string(&rf).ok().and_then(|s| s.lines().next().and_then(|l| serde_json::from_str(l).ok()));
            t_py.fetch_add(t1.elapsed().as_millis() as u64, std::sync::atomic::Ordering::Relaxed);
            let t2 = std::time::Instant::now();
            let _t2guard = Guard(&t_or, t2);
            if std::env::var("PDLMC_KEEP").is_err() {
                let _ = std::fs::remove_file(&tf);
                let _ = std::fs::remove_file(&rf);
                let _ = std::fs::remove_file(root.join(format!("{id}.py")));
            }
            let mut inc = |k: &str| *c.entry(k.to_string()).or_default() += 1;
            let src = text.clone();
            let base = |ty: &str| json!({"state": t.st.id, "family": t.st.family, "endianness": if t.big {"big"} else {"little"}, "type": ty, "source": src});
            let r = match (&result, status) {
                (Some(r), _) => r,
                (None, _) => {
                    rep.report(Violation { property: "C13".into(), sig: "driver-died-in-module (non-terminating or crashed)".into(), detail: base("") });
                    return (rep, c, None);
                }
            };
            if let Some(le) = r.get("load_error") {
                rep.report(Violation { property: "C13".into(), sig: format!("generated-module-does-not-load error={}", le.as_str().unwrap_or("").split(':').next().unwrap_or("")), detail: json!({"state": base(""), "error": le}) });
                return (rep, c, None);
            }
            if let Some(de) = r.get("driver_error") {
                rep.report(Violation { property: "C13".into(), sig: format!("driver-error {}", de.as_str().unwrap_or("").split(':').next().unwrap_or("")), detail: json!({"state": base(""), "error": de}) });
                return (rep, c, None);
            }
            inc("modules");
            let mut sample = None;
            // parse
            for (k, (ty, inputs)) in t.parse.iter().enumerate() {
                let res = match r["parse"].get(k).and_then(|x| x["results"].as_array()) {
                    Some(a) => a,
                    None => continue,
                };
                let rare = pdlmc_core::classes::construct_classes(&t.inl, ty);
                let rare: Vec<&str> = rare.iter().copied().filter(|c| ["padded-array", "payload-with-modifier", "elementsize-array"].contains(c)).collect();
                for (b, got) in inputs.iter().zip(res.iter()) {
                    inc("parse-inputs");
                    let want = match expected_parse(&m, ty, b) {
                        Some(w) => w,
                        None => {
                            inc("inputs-skipped-two-children-fit");
                            continue;
                        }
                    };
                    let kind = got[0].as_str().unwrap_or("");
                    match (&want, kind) {
                        (_, "timeout") => rep.report(Violation { property: "C13".into(), sig: "parse-does-not-terminate".into(), detail: json!({"state": base(ty), "input": model::hex(b)}) }),
                        (Ok((cls, v)), "ok") => {
                            inc("outcome:both-accept");
                            let gcls = got[1].as_str().unwrap_or("");
                            if gcls != cls {
                                rep.report(Violation {
                                    property: "C13".into(),
                                    sig: format!("parse-returns-wrong-class expected-is={} rare-constructs={rare:?}", if cls == ty { "the-root" } else { "a-descendant" }),
                                    detail: json!({"state": base(ty), "input": model::hex(b), "expected_class": cls, "observed_class": gcls, "observed": got[2]}),
                                });
                            } else if !value_matches(v, &got[2]) {
                                rep.report(Violation {
                                    property: "C13".into(),
                                    sig: format!("parsed-value-differs-from-reference rare-constructs={rare:?}"),
                                    detail: json!({"state": base(ty), "input": model::hex(b), "expected": v.to_json(), "observed": got[2]}),
                                });
                            }
                        }
                        (Err(_), "err") => {
                            inc("outcome:both-reject");
                            if got[2].as_bool() != Some(true) {
                                rep.report(Violation {
                                    property: "C13".into(),
                                    sig: format!("rejected-with-non-DecodeError exception={} rare-constructs={rare:?}", got[1].as_str().unwrap_or("")),
                                    detail: json!({"state": base(ty), "input": model::hex(b), "exception": got[1], "message": got[3]}),
                                });
                            }
                        }
                        (Ok((cls, v)), "err") => {
                            inc("outcome:disagree");
                            rep.report(Violation {
                                property: "C13".into(),
                                sig: format!("reference-accepts-parser-rejects exception={} rare-constructs={rare:?}", got[1].as_str().unwrap_or("")),
                                detail: json!({"state": base(ty), "input": model::hex(b), "expected_class": cls, "expected": v.to_json(), "exception": got[1], "message": got[3]}),
                            });
                        }
                        (Err(f), "ok") => {
                            inc("outcome:disagree");
                            rep.report(Violation {
                                property: "C13".into(),
                                sig: format!("reference-rejects-parser-accepts faults={:?} at={} rare-constructs={rare:?}", f, m.length_ctx.get()),
                                detail: json!({"state": base(ty), "input": model::hex(b), "observed_class": got[1], "observed": got[2]}),
                            });
                        }
                        _ => {}
                    }
                }
                if sample.is_none() && t.st.depth >= 2 {
                    sample = Some(json!({"type": ty, "inputs": inputs.len(), "source": src}));
                }
            }
            // build
            for (k, (ty, vals)) in t.build.iter().enumerate() {
                let res = match r["build"].get(k).and_then(|x| x["results"].as_array()) {
                    Some(a) => a,
                    None => continue,
                };
                let is_root = t.inl.get(ty).map(|d| d.parent().is_none()).unwrap_or(false);
                for (v, got) in vals.iter().zip(res.iter()) {
                    inc("values");
                    let want = match m.encode(ty, v) {
                        Ok(e) => e,
                        Err(_) => continue,
                    };
                    match got[0].as_str().unwrap_or("") {
                        "ok" => {
                            inc("outcome:serialized");
                            let hex = got[1].as_str().unwrap_or("");
                            if hex != model::hex(&want.bytes) {
                                let gb = model::unhex(hex);
                                let pos = gb.iter().zip(want.bytes.iter()).position(|(a, b)| a != b).unwrap_or(gb.len().min(want.bytes.len()));
                                let chunk = want.chunks.iter().find(|c| c.start <= pos && pos < c.start + c.len.max(1)).map(|c| match &c.kind {
                                    model::ChunkKind::Group(_) => "bit-field-group",
                                    model::ChunkKind::Word => "word",
                                    model::ChunkKind::Bytes => "bytes",
                                    model::ChunkKind::Padding => "padding",
                                }).unwrap_or("length");
                                rep.report(Violation {
                                    property: "C13".into(),
                                    sig: format!("serialization-differs-from-reference first-difference-in={chunk}"),
                                    detail: json!({"state": base(ty), "value": v.to_json(), "expected": model::hex(&want.bytes), "observed": hex}),
                                });
                            }
                            if is_root {
                                if got[2].as_u64() != Some(model::unhex(hex).len() as u64) {
                                    rep.report(Violation {
                                        property: "C13".into(),
                                        sig: "size-property-differs-from-serialized-length".into(),
                                        detail: json!({"state": base(ty), "value": v.to_json(), "size": got[2], "serialized_length": hex.len() / 2}),
                                    });
                                }
                            }
                        }
                        "timeout" => rep.report(Violation { property: "C13".into(), sig: "serialize-does-not-terminate".into(), detail: json!({"state": base(ty), "value": v.to_json()}) }),
                        kind => {
                            inc("outcome:serialize-error");
                            rep.report(Violation {
                                property: "C13".into(),
                                sig: format!("well-formed-value-not-serialized kind={kind} exception={}", got[1].as_str().unwrap_or("")),
                                detail: json!({"state": base(ty), "value": v.to_json(), "expr": py_expr(&m, ty, v), "error": got}),
                            });
                        }
                    }
                }
            }
            (rep, c, sample)
        })
        .collect());
    eprintln!("phases (cpu ms): generate+inputs={} python={} oracles={}", t_gen.load(std::sync::atomic::Ordering::Relaxed), t_py.load(std::sync::atomic::Ordering::Relaxed), t_or.load(std::sync::atomic::Ordering::Relaxed));
    let mut rep = Reporter::new("C13");
    rep.dry = single;
    let mut counters: BTreeMap<String, usize> = BTreeMap::new();
    let mut samples = vec![];
    for (r, c, s) in per_task {
        rep.merge(r);
        for (k, v) in c {
            *counters.entry(k).or_default() += v;
        }
        if let Some(s) = s {
            if samples.len() < 3 {
                samples.push(s);
            }
        }
    }
    if std::env::var("PDLMC_KEEP").is_err() {
        let _ = std::fs::remove_dir_all(&root);
    }
    ev.set("states", json!(e.states.len()));
    ev.set("transitions", json!(e.transitions));
    ev.set("compiled_states", json!(sel.states.len()));
    ev.set("strata", json!(sel.strata.iter().map(|(f, d, n, t)| json!({"family": f, "depth": d, "eligible": n, "compiled": t})).collect::<Vec<_>>()));
    ev.set("stride", json!(py_stride));
    ev.set("exhaustive", json!(py_stride <= 1 && !sel.strata.iter().any(|(_, _, n, t)| t < n)));
    ev.set("traces_validated_against_impl", json!(counters.get("parse-inputs").copied().unwrap_or(0) + counters.get("values").copied().unwrap_or(0)));
    ev.set("outcomes", json!(counters));
    ev.set("samples", json!(samples));
    ev.set("rule", json!("for the well-formed Python-supported states (both endiannesses; selection as in the rust engine) the real Python backend generates a module; for every root type of a deterministically parseable description: all B-alphabet strings <= 3 (4), all 1-byte strings, and every prefix / extension / substitution / field-targeted mutant of the reference encodings of the explored values of the type and of its descendants are passed to parse_all: the reference accepts => the object has the class of the most derived declaration whose constraints and fields fit and carries the reference field values; the reference rejects => a DecodeError subclass (anything else, or a 10 s timeout, is a violation). For every type and explored value: serialize() == reference encoding, and for root types size == len(serialize())"));
    ev.assumptions = vec![
        "trusted: the reference model; values are built through constructor expressions derived from the IR and read back by reflection over dataclass fields (drivers/pydrv.py)".into(),
        "inputs on which two children of one parent both fit are skipped (the reference gives no single answer)".into(),
    ];
    let code = rep.finish(&mut ev);
    let distinct = counters.iter().filter(|(k, v)| k.starts_with("outcome:") && **v > 0).count();
    ev.set("distinct_outcome_classes", json!(distinct));
    if single {
        return code;
    }
    ev.write(&format!("{VERIF_DIR}/evidence"));
    if distinct < 2 {
        eprintln!("machinery error: exploration produced {distinct} outcome class(es)");
        return 2;
    }
    println!("C13 {}: compiled_states={} modules={} parse_inputs={} values={} violations={} known={} wall={:.1}s", tier_name(tier), sel.states.len(), counters.get("modules").copied().unwrap_or(0), counters.get("parse-inputs").copied().unwrap_or(0), counters.get("values").copied().unwrap_or(0), ev.violations, ev.known, ev.start.elapsed().as_secs_f64());
    code
}

struct Guard<'a>(&'a std::sync::atomic::AtomicU64, std::time::Instant);
impl Drop for Guard<'_> {
    fn drop(&mut self) {
        self.0.fetch_add(self.1.elapsed().as_millis() as u64, std::sync::atomic::Ordering::Relaxed);
    }
}

pub fn descendants(d: &Desc, id: &str) -> Vec<String> {
    let mut out = vec![];
    for c in d.children(id) {
        out.push(c.id.clone());
        out.extend(descendants(d, &c.id));
    }
    out
}

/// every descendant is deterministically parseable too
pub fn tree_deterministic(d: &Desc, id: &str) -> bool {
    descendants(d, id).iter().all(|c| classes::deterministic(d, c).is_ok())
}
